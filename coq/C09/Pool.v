(** C09 — proofs about the ConnectionPool model (repaired slot accounting). *)
From HS Require Import Base.Prelude C09.Model C09.Resource.
Local Open Scope Z_scope.

Lemma zmem_In c l : zmem c l = true <-> In c l.
Proof.
  unfold zmem. rewrite existsb_exists. split.
  - intros (x & Hx & E). assert (c = x) by lia. subst; auto.
  - intros H. exists c. split; auto. lia.
Qed.

Lemma zremove_incl c l : incl (zremove c l) l.
Proof.
  induction l as [|i r IH]; cbn; [apply incl_refl|]. destruct (i =? c); [apply incl_tl, incl_refl|].
  intros x [<-|H]; [left; auto|right; auto].
Qed.

Lemma zremove_nodup c l : NoDup l -> NoDup (zremove c l) /\ ~ In c (zremove c l).
Proof.
  induction l as [|i r IH]; cbn; intros H; [split; [constructor|tauto]|].
  inversion H; subst. destruct (IH H3) as [I1 I2]. destruct (i =? c) eqn:E.
  - assert (i = c) by lia. subst. auto.
  - split.
    + constructor; auto. intros Hin. apply H2. eapply zremove_incl; eauto.
    + intros [Heq|Hin]; [lia|auto].
Qed.

Lemma zremove_len c l : In c l -> Z.of_nat (length (zremove c l)) = Z.of_nat (length l) - 1.
Proof.
  induction l as [|i r IH]; cbn [In length zremove]; [tauto|]. destruct (i =? c) eqn:E; [lia|].
  intros [->|H]; [lia|]. cbn [length]. rewrite Nat2Z.inj_succ, IH; auto.
  destruct r; [destruct H|]. cbn [length]. lia.
Qed.

Lemma assoc_remove_incl c l : incl (assoc_remove c l) l.
Proof.
  induction l as [|[i v] r IH]; cbn; [apply incl_refl|]. destruct (i =? c); [apply incl_tl, incl_refl|].
  intros x [<-|H]; [left; auto|right; auto].
Qed.

Lemma assoc_remove_keys c l v : assoc_find c l = Some v -> NoDup (map fst l) ->
  NoDup (map fst (assoc_remove c l)) /\ incl (map fst (assoc_remove c l)) (map fst l) /\
  Z.of_nat (length (assoc_remove c l)) = Z.of_nat (length l) - 1.
Proof.
  induction l as [|[i w] r IH]; cbn [assoc_find assoc_remove map fst length]; [discriminate|].
  intros F N. inversion N; subst. destruct (i =? c) eqn:E.
  - split; auto. split; [apply incl_tl, incl_refl|lia].
  - destruct (IH F H2) as (I1 & I2 & I3). cbn [map fst length]. split; [|split].
    + constructor; auto.
    + intros x [<-|H]; [left; auto|right; auto].
    + lia.
Qed.

Record pinv (s : pstate) : Prop := {
  pi_total : p_total s = Z.of_nat (length (p_idle s)) + Z.of_nat (length (p_active s)) + Z.of_nat (length (p_creating s));
  pi_max : p_total s <= p_max s;
  pi_nodup : NoDup (map fst (p_idle s) ++ p_active s);
  pi_ids : Forall (fun c => c <= p_next_conn s) (map fst (p_idle s) ++ p_active s);
  pi_wait : p_waiters s <> [] -> p_idle s = [] /\ p_total s = p_max s;
}.

Lemma pinv_init mx mn polls : 0 <= mx -> pinv (p_init mx mn polls).
Proof. intros H; constructor; cbn; auto; try lia; try constructor; tauto. Qed.

Lemma NoDup_app_comm {A} (a b : list A) : NoDup (a ++ b) -> NoDup (b ++ a).
Proof. intros H. eapply Permutation.Permutation_NoDup; [apply Permutation.Permutation_app_comm|auto]. Qed.

Lemma pinv_step s o : pinv s -> pinv (fst (p_step s o)).
Proof.
  intros I. destruct I. destruct o as [c|c|c|c conn now|conn expected]; cbn.
  - destruct (p_idle s) as [|[conn lu] rest] eqn:Ei; rewrite ?Ei in *; cbn [length map fst app] in *.
    + destruct (p_total s <? p_max s) eqn:E; cbn.
      * constructor; cbn; auto; try lia.
      * constructor; cbn; auto; try lia. intros _. split; auto. lia.
    + constructor; cbn; auto.
      * rewrite app_length; cbn. lia.
      * inversion pi_nodup0; subst. rewrite app_assoc.
        apply NoDup_app_comm. cbn. constructor; auto.
      * inversion pi_ids0; subst. rewrite app_assoc. apply Forall_app; split; auto.
      * intros W. destruct (pi_wait0 W) as [Hc _]. discriminate.
  - destruct (zmem c (p_creating s)) eqn:M; cbn; [|constructor; auto].
    apply zmem_In in M. constructor; cbn; auto.
    + rewrite app_length; cbn. pose proof (zremove_len _ _ M). lia.
    + rewrite app_assoc. apply NoDup_app_comm. cbn. constructor; auto.
      intros Hin. rewrite Forall_forall in pi_ids0. specialize (pi_ids0 _ Hin). lia.
    + rewrite app_assoc. apply Forall_app; split; [|repeat constructor; lia].
      eapply Forall_impl; [|exact pi_ids0]. cbn; intros; lia.
  - destruct (assoc_find c (p_ticks s)) as [k|]; cbn; [|constructor; auto].
    destruct (assoc_find c (p_granted s)) as [conn|]; cbn; [constructor; auto|].
    destruct (k + 1 >=? p_polls s); cbn; constructor; cbn; auto.
    intros W. apply pi_wait0. intros E. rewrite E in W. cbn in W. auto.
  - destruct (zmem conn (p_active s)) eqn:M; cbn; [|constructor; auto].
    apply zmem_In in M.
    assert (Nact : NoDup (p_active s)) by (eapply NoDup_app_r; eauto).
    destruct (zremove_nodup conn _ Nact) as [Nr Nin].
    destruct (p_waiters s) as [|[wid w] rest] eqn:Ew; cbn.
    + constructor; cbn; auto; try discriminate; try tauto.
      * rewrite app_length; cbn. pose proof (zremove_len _ _ M). lia.
      * rewrite map_app; cbn. rewrite <- app_assoc. cbn.
        eapply Permutation.Permutation_NoDup; [apply Permutation.Permutation_middle|].
        constructor.
        -- intros Hin. apply in_app_or in Hin as [Hin|Hin]; [|tauto].
           eapply NoDup_app_disj; eauto.
        -- apply NoDup_app_intro; [eapply NoDup_app_l; eauto|auto|].
           intros x Hx Hy. eapply NoDup_app_disj; eauto. eapply zremove_incl; eauto.
      * rewrite map_app; cbn. rewrite <- app_assoc. cbn. apply Forall_app in pi_ids0 as [F1 F2].
        apply Forall_app; split; auto. constructor.
        -- rewrite Forall_forall in F2. apply F2; auto.
        -- apply Forall_forall. intros x Hx. rewrite Forall_forall in F2. apply F2. eapply zremove_incl; eauto.
    + assert (Hw : p_idle s = [] /\ p_total s = p_max s) by (apply pi_wait0; discriminate).
      destruct Hw as [Hi Ht]. constructor; cbn; auto.
      * rewrite app_length; cbn. pose proof (zremove_len _ _ M). lia.
      * rewrite Hi in *. cbn in *. apply NoDup_app_comm. cbn. constructor; auto.
      * rewrite Hi in *. cbn in *. apply Forall_app; split.
        -- apply Forall_forall. intros x Hx. rewrite Forall_forall in pi_ids0. apply pi_ids0. eapply zremove_incl; eauto.
        -- repeat constructor. rewrite Forall_forall in pi_ids0. apply pi_ids0; auto.
  - destruct (assoc_find conn (p_idle s)) as [last|] eqn:F; cbn; [|constructor; auto].
    destruct (last =? expected); cbn; [|constructor; auto].
    destruct (p_total s >? p_min s); cbn; [|constructor; auto].
    destruct (assoc_remove_keys _ _ _ F (NoDup_app_l _ _ pi_nodup0)) as (K1 & K2 & K3).
    constructor; cbn; auto; try lia.
    + apply NoDup_app_intro; auto; [eapply NoDup_app_r; eauto|].
      intros x Hx Hy. eapply NoDup_app_disj; eauto.
    + apply Forall_app in pi_ids0 as [F1 F2]. apply Forall_app; split; auto.
      apply Forall_forall. intros x Hx. rewrite Forall_forall in F1. apply F1; auto.
    + intros W. destruct (pi_wait0 W) as [Hi _]. rewrite Hi in F. discriminate.
Qed.

Lemma pinv_run ops : forall s, pinv s -> pinv (p_run s ops).
Proof. induction ops; cbn; intros; auto. apply IHops, pinv_step; auto. Qed.

Lemma p_max_step s o : p_max (fst (p_step s o)) = p_max s.
Proof.
  destruct o as [c|c|c|c conn now|conn expected]; cbn.
  - destruct (p_idle s) as [|[? ?] ?]; cbn; auto. destruct (p_total s <? p_max s); auto.
  - destruct (zmem c (p_creating s)); auto.
  - destruct (assoc_find c (p_ticks s)); auto. destruct (assoc_find c (p_granted s)); auto.
    destruct (z + 1 >=? p_polls s); auto.
  - destruct (zmem conn (p_active s)); cbn; auto. destruct (p_waiters s) as [|[? ?] ?]; auto.
  - destruct (assoc_find conn (p_idle s)); auto. destruct (z =? expected); cbn; auto.
    destruct (p_total s >? p_min s); auto.
Qed.
Lemma p_max_run ops : forall s, p_max (p_run s ops) = p_max s.
Proof. induction ops; cbn; intros; auto. rewrite IHops. apply p_max_step. Qed.

(** Never more connections (open, being opened, or in use) than max_connections;
    a connection is in at most one place; nobody waits while a connection is
    idle or a slot is free. *)
Lemma pool_bound mx mn polls ops : 0 <= mx ->
  let s := p_run (p_init mx mn polls) ops in
  Z.of_nat (length (p_active s)) <= mx /\ p_total s <= mx /\
  p_total s = Z.of_nat (length (p_idle s)) + Z.of_nat (length (p_active s)) + Z.of_nat (length (p_creating s)) /\
  NoDup (map fst (p_idle s) ++ p_active s) /\
  (p_waiters s <> [] -> p_idle s = [] /\ p_total s = mx).
Proof.
  intros H. cbn. pose proof (pinv_run ops _ (pinv_init mx mn polls H)) as I.
  pose proof (p_max_run ops (p_init mx mn polls)) as M. cbn in M. destruct I. rewrite M in *.
  repeat split; auto; try lia; apply pi_wait0; auto.
Qed.

(** Direct hand-off to the oldest waiter. *)
Lemma pool_fifo_handoff s c conn now wid w rest : zmem conn (p_active s) = true ->
  p_waiters s = (wid, w) :: rest ->
  snd (p_step s (PRelease c conn now)) = PHandoff w /\
  p_waiters (fst (p_step s (PRelease c conn now))) = rest /\
  p_granted (fst (p_step s (PRelease c conn now))) = p_granted s ++ [(w, conn)] /\
  In conn (p_active (fst (p_step s (PRelease c conn now)))).
Proof.
  intros M W. cbn. rewrite M, W. cbn. repeat split; auto. apply in_or_app. right. left. auto.
Qed.

(** A queued client sees the connection it was handed at its next poll tick. *)
Lemma pool_poll_sees_grant s c k conn : assoc_find c (p_ticks s) = Some k ->
  assoc_find c (p_granted s) = Some conn -> snd (p_step s (PPoll c)) = PGot conn.
Proof. intros T G. cbn. rewrite T, G. reflexivity. Qed.
