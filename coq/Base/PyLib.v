(** Python containers as the regenerated code ([Gen/*.v], written by
    harness/translate/py2coq.py) uses them: insertion-ordered dicts with integer
    keys and values as association lists, plus the list idioms of the subset.
    Executable definitions first, then the lemmas the tie proofs need. *)
From HS Require Import Base.Prelude.
Local Open Scope Z_scope.

Definition pydict := list (Z * Z).

Fixpoint dget (d : pydict) (k dflt : Z) : Z :=
  match d with
  | [] => dflt
  | (k', v) :: r => if k' =? k then v else dget r k dflt
  end.

Fixpoint dmem (d : pydict) (k : Z) : bool :=
  match d with
  | [] => false
  | (k', _) :: r => (k' =? k) || dmem r k
  end.

(** [d[k] = v]: overwrite in place, or append at the end (insertion order). *)
Fixpoint dset (d : pydict) (k v : Z) : pydict :=
  match d with
  | [] => [(k, v)]
  | (k', v') :: r => if k' =? k then (k', v) :: r else (k', v') :: dset r k v
  end.

Definition dsum (d : pydict) : Z := fold_right (fun kv acc => snd kv + acc) 0 d.

Fixpoint py_dropwhile (p : Z -> bool) (l : list Z) : list Z :=
  match l with
  | x :: r => if p x then py_dropwhile p r else l
  | [] => []
  end.

Definition py_hd (l : list Z) : Z := match l with x :: _ => x | [] => 0 end.

(** Keys are unique in a Python dict. *)
Fixpoint dwf (d : pydict) : bool :=
  match d with
  | [] => true
  | (k, _) :: r => negb (dmem r k) && dwf r
  end.

(** The abstraction used by the hand-written models: a total function with default 0. *)
Definition dfun (d : pydict) : Z -> Z := fun k => dget d k 0.

Lemma dget_dset_same d k v dflt : dget (dset d k v) k dflt = v.
Proof.
  induction d as [|[k' v'] r IH]; cbn.
  - rewrite Z.eqb_refl. reflexivity.
  - destruct (k' =? k) eqn:E; cbn; rewrite E; [reflexivity|exact IH].
Qed.

Lemma dget_dset_other d k v k2 dflt : k2 <> k -> dget (dset d k v) k2 dflt = dget d k2 dflt.
Proof.
  intros Hne. induction d as [|[k' v'] r IH]; cbn.
  - destruct (k =? k2) eqn:E; [lia|reflexivity].
  - destruct (k' =? k) eqn:E; cbn.
    + destruct (k' =? k2) eqn:E2; [lia|reflexivity].
    + destruct (k' =? k2); [reflexivity|exact IH].
Qed.

Lemma dget_dset d k v k2 dflt :
  dget (dset d k v) k2 dflt = if k2 =? k then v else dget d k2 dflt.
Proof.
  destruct (k2 =? k) eqn:E.
  - assert (k2 = k) by lia. subst. apply dget_dset_same.
  - apply dget_dset_other. lia.
Qed.

Lemma dmem_dset d k v k2 : dmem (dset d k v) k2 = (k2 =? k) || dmem d k2.
Proof.
  induction d as [|[k' v'] r IH]; cbn.
  - rewrite Z.eqb_sym. destruct (k2 =? k); reflexivity.
  - destruct (k' =? k) eqn:E; cbn.
    + destruct (k' =? k2) eqn:E2; destruct (k2 =? k) eqn:E3; try reflexivity; lia.
    + rewrite IH. destruct (k' =? k2) eqn:E2; destruct (k2 =? k) eqn:E3; cbn; try reflexivity.
Qed.

Lemma dwf_dset d k v : dwf d = true -> dwf (dset d k v) = true.
Proof.
  induction d as [|[k' v'] r IH]; cbn; intros H; [reflexivity|].
  apply andb_true_iff in H as [H1 H2].
  destruct (k' =? k) eqn:E; cbn.
  - rewrite H1, H2. reflexivity.
  - rewrite dmem_dset, (IH H2). destruct (k' =? k) eqn:E2; [discriminate|]. cbn. rewrite H1. reflexivity.
Qed.

Lemma dget_not_mem d k dflt : dmem d k = false -> dget d k dflt = dflt.
Proof.
  induction d as [|[k' v'] r IH]; cbn; [reflexivity|].
  destruct (k' =? k); cbn; [discriminate|exact IH].
Qed.

(** Sum of the values = sum of the abstraction over any duplicate-free key list
    covering the dict's keys. *)
Lemma dfun_dset d k v : forall k2, dfun (dset d k v) k2 = if k2 =? k then v else dfun d k2.
Proof. intros k2. unfold dfun. apply dget_dset. Qed.

(** [d[k]] read: [None] is Python's KeyError. *)
Fixpoint dfind (d : pydict) (k : Z) : option Z :=
  match d with
  | [] => None
  | (k', v) :: r => if k' =? k then Some v else dfind r k
  end.

Lemma dfind_mem d k : dmem d k = true -> dfind d k = Some (dget d k 0).
Proof.
  induction d as [|[k' v'] r IH]; cbn; [discriminate|].
  destruct (k' =? k); cbn; [reflexivity|exact IH].
Qed.

(* ------------------------------------------------------------------ *)
(** Element-wise max merge of a dict into another, as the loops
    [for k, v in other.items(): self.d[k] = max(self.d.get(k, 0), v)] do it. *)
Definition dmerge_step (d : pydict) (kv : Z * Z) : pydict :=
  dset d (fst kv) (Z.max (dget d (fst kv) 0) (snd kv)).

Lemma dmerge_fold b : forall a, dwf b = true ->
  forall k, dfun (fold_left dmerge_step b a) k
            = if dmem b k then Z.max (dfun a k) (dfun b k) else dfun a k.
Proof.
  induction b as [|[k0 v0] r IH]; intros a Hwf k; cbn [fold_left dmem]; [reflexivity|].
  cbn [dwf] in Hwf. apply andb_true_iff in Hwf as [Hk0 Hr]. apply negb_true_iff in Hk0.
  rewrite (IH _ Hr k). unfold dmerge_step at 1 2; cbn [fst snd].
  rewrite !dfun_dset.
  assert (Hb : dfun ((k0, v0) :: r) k = if k =? k0 then v0 else dfun r k).
  { unfold dfun; cbn [dget]. rewrite (Z.eqb_sym k0 k). reflexivity. }
  rewrite Hb, (Z.eqb_sym k0 k).
  destruct (k =? k0) eqn:E; cbn [orb].
  - assert (k = k0) by lia; subst k. rewrite Hk0. reflexivity.
  - reflexivity.
Qed.

Lemma dmerge_fold_wf b : forall a, dwf a = true -> dwf (fold_left dmerge_step b a) = true.
Proof.
  induction b as [|kv r IH]; intros a H; cbn [fold_left]; [exact H|].
  apply IH. unfold dmerge_step. apply dwf_dset. exact H.
Qed.

Lemma dmerge_fold_mem b : forall a k, dmem (fold_left dmerge_step b a) k = dmem a k || dmem b k.
Proof.
  induction b as [|[k0 v0] r IH]; intros a k; cbn [fold_left dmem]; [rewrite orb_false_r; reflexivity|].
  rewrite IH. unfold dmerge_step; cbn [fst snd]. rewrite dmem_dset.
  rewrite (Z.eqb_sym k0 k). destruct (k =? k0), (dmem a k), (dmem r k); reflexivity.
Qed.

Definition dnonneg (d : pydict) : Prop := forall k v, In (k, v) d -> 0 <= v.

Lemma dnonneg_dfun d : dnonneg d -> forall k, 0 <= dfun d k.
Proof.
  intros H k. unfold dfun. induction d as [|[k' v'] r IH]; cbn; [lia|].
  destruct (k' =? k).
  - apply (H k' v'). left; reflexivity.
  - apply IH. intros k2 v2 Hin. apply (H k2 v2). right; exact Hin.
Qed.

Lemma dnonneg_dset d k v : dnonneg d -> 0 <= v -> dnonneg (dset d k v).
Proof.
  intros H Hv. induction d as [|[k' v'] r IH]; cbn.
  - intros k2 v2 [E|[]]. inversion E; subst; exact Hv.
  - destruct (k' =? k).
    + intros k2 v2 [E|Hin]; [inversion E; subst; exact Hv|]. apply (H k2 v2). right; exact Hin.
    + intros k2 v2 [E|Hin]; [apply (H k2 v2); left; exact E|].
      assert (Hr : dnonneg r) by (intros k3 v3 Hin3; apply (H k3 v3); right; exact Hin3).
      exact (IH Hr k2 v2 Hin).
Qed.

(** Sum of all values = sum of the abstraction over the dict's own key list. *)
Lemma dfun_cons_notin k v r k2 : k <> k2 -> dfun ((k, v) :: r) k2 = dfun r k2.
Proof. intros H. unfold dfun; cbn. destruct (k =? k2) eqn:E; [lia|reflexivity]. Qed.

Lemma dmem_false_notin r k : dmem r k = false -> ~ In k (map fst r).
Proof.
  induction r as [|[k' v'] r IH]; cbn; intros H Hin; [exact Hin|].
  apply orb_false_iff in H as [H1 H2]. destruct Hin as [E|Hin]; [subst; lia|exact (IH H2 Hin)].
Qed.

Lemma dsum_keys d : dwf d = true -> dsum d = fold_right (fun k acc => dfun d k + acc) 0 (map fst d).
Proof.
  unfold dsum. induction d as [|[k v] r IH]; intros Hwf; [reflexivity|].
  cbn [dwf] in Hwf. apply andb_true_iff in Hwf as [Hk Hr]. apply negb_true_iff in Hk.
  cbn [fold_right map fst snd]. rewrite (IH Hr).
  assert (Hkk : dfun ((k, v) :: r) k = v) by (unfold dfun; cbn; rewrite Z.eqb_refl; reflexivity).
  rewrite Hkk. f_equal.
  pose proof (dmem_false_notin r k Hk) as Hnot.
  revert Hnot. generalize (map fst r) as ks. induction ks as [|k2 ks IHk]; intros Hnot; cbn [fold_right]; [reflexivity|].
  rewrite (dfun_cons_notin k v r k2) by (intros ->; apply Hnot; left; reflexivity).
  f_equal. apply IHk. intros Hin. apply Hnot. right; exact Hin.
Qed.

(* ------------------------------------------------------------------ *)
(** Python list indexing and slicing (step 1), exactly: negative positions count
    from the end; an index out of range is an IndexError ([None]); slice bounds
    are clamped. *)
Definition py_index {A} (l : list A) (i : Z) : option A :=
  let n := Z.of_nat (length l) in
  let j := if i <? 0 then i + n else i in
  if (j <? 0) || (j >=? n) then None else nth_error l (Z.to_nat j).

Definition py_clamp (n : Z) (b : option Z) (dflt : Z) : Z :=
  match b with
  | None => dflt
  | Some i => let j := if i <? 0 then i + n else i in Z.max 0 (Z.min n j)
  end.

Definition py_slice {A} (l : list A) (lo hi : option Z) : list A :=
  let n := Z.of_nat (length l) in
  let a := py_clamp n lo 0 in
  let b := py_clamp n hi n in
  firstn (Z.to_nat (b - a)) (skipn (Z.to_nat a) l).

(* ------------------------------------------------------------------ *)
(** Capacities: a field declared [cap] holds [float("inf")] ([None]) or an
    integer; [n >= capacity] is then [py_cap_le capacity n]. *)
Definition py_cap_le (c : option Z) (n : Z) : bool :=
  match c with None => false | Some c => c <=? n end.

(** [deque.pop()] / [list.pop()]: the LAST element; [None] = IndexError. *)
Definition py_pop_last {A} (l : list A) : option (list A * A) :=
  match rev l with [] => None | x :: r => Some (rev r, x) end.

Lemma py_pop_last_snoc {A} (l : list A) x : py_pop_last (l ++ [x]) = Some (l, x).
Proof. unfold py_pop_last. rewrite rev_app_distr. cbn. now rewrite rev_involutive. Qed.

Lemma py_pop_last_rev {A} (l : list A) :
  py_pop_last (rev l) = match l with [] => None | x :: r => Some (rev r, x) end.
Proof. unfold py_pop_last. rewrite rev_involutive. reflexivity. Qed.

(** [heapq] on a list that is only ever touched through heappush / heappop /
    [h[0]] / [len]: CPython's binary heap is outside /repo; it is rendered as a
    list sorted by the element order [lt] (a new element goes before the first
    one it is smaller than), whose head is what [heappop] and [h[0]] return when
    [lt] is a strict total order — the same trusted reading as for the event
    heap of the engine model. *)
Fixpoint py_heappush {A} (lt : A -> A -> bool) (h : list A) (x : A) : list A :=
  match h with
  | [] => [x]
  | e :: r => if lt x e then x :: h else e :: py_heappush lt r x
  end.

(** (Ordered)dict deletion, [move_to_end] (the key is present: the code guards it with [k in d]),
    list membership and [list.remove] (first occurrence; present). *)
Fixpoint ddel (d : pydict) (k : Z) : pydict :=
  match d with
  | [] => []
  | (k', v) :: r => if k' =? k then r else (k', v) :: ddel r k
  end.
Definition dmove_end (d : pydict) (k : Z) : pydict :=
  match dfind d k with Some v => ddel d k ++ [(k, v)] | None => d end.
Definition py_in (l : list Z) (x : Z) : bool := existsb (Z.eqb x) l.
Fixpoint py_remove1 (l : list Z) (x : Z) : list Z :=
  match l with
  | [] => []
  | y :: r => if y =? x then r else y :: py_remove1 r x
  end.

(** [min(l)] / [max(l)] of a list of integers; [None] = ValueError (empty). *)
Definition py_min_list (l : list Z) : option Z :=
  match l with [] => None | x :: r => Some (fold_left Z.min r x) end.
Definition py_max_list (l : list Z) : option Z :=
  match l with [] => None | x :: r => Some (fold_left Z.max r x) end.

(** [range(a, b)] and [range(a, b, -1)] as lists. *)
Fixpoint py_range_up (lo : Z) (k : nat) : list Z :=
  match k with O => [] | S k' => lo :: py_range_up (lo + 1) k' end.
Definition py_range (a b : Z) : list Z := py_range_up a (Z.to_nat (b - a)).
Fixpoint py_range_down (hi : Z) (k : nat) : list Z :=
  match k with O => [] | S k' => hi :: py_range_down (hi - 1) k' end.
Definition py_range_desc (a b : Z) : list Z := py_range_down a (Z.to_nat (a - b)).

(** [sorted(l, key=f)] with an integer key: Python's sort is stable (elements
    with equal keys keep their order). *)
Fixpoint py_ins_by {A} (key : A -> Z) (x : A) (l : list A) : list A :=
  match l with
  | [] => [x]
  | y :: r => if key x <=? key y then x :: l else y :: py_ins_by key x r
  end.
Definition py_sorted_by {A} (key : A -> Z) (l : list A) : list A := fold_right (py_ins_by key) [] l.

(* ------------------------------------------------------------------ *)
(** Shape-independent automation for tie lemmas: case-split on every boolean test
    and every option scrutinee that occurs in the goal, then close by computation /
    linear arithmetic.  Used so that a harmless restructuring of the translated
    source (swapped branches, early returns, De Morgan) does not break the tie. *)
Ltac tie_split :=
  repeat match goal with
  | |- context [Z.ltb ?a ?b] => destruct (Z.ltb a b) eqn:?
  | |- context [Z.leb ?a ?b] => destruct (Z.leb a b) eqn:?
  | |- context [Z.gtb ?a ?b] => destruct (Z.gtb a b) eqn:?
  | |- context [Z.geb ?a ?b] => destruct (Z.geb a b) eqn:?
  | |- context [Z.eqb ?a ?b] => destruct (Z.eqb a b) eqn:?
  | |- context [if ?c then _ else _] => is_var c; destruct c
  | |- context [match ?x with Some _ => _ | None => _ end] => is_var x; destruct x
  | |- context [if ?c then _ else _] =>
      lazymatch c with
      | negb _ => fail | andb _ _ => fail | orb _ _ => fail
      | _ => destruct c eqn:?
      end
  end.
Ltac tie_close := cbn; repeat split; first [reflexivity | (exfalso; lia) | lia | (f_equal; lia)].
Ltac tie_auto := cbn; tie_split; cbn; try reflexivity; try lia; try (repeat split; (reflexivity || lia)).
