(** Shared prelude: standard imports, the [lia] set-up that decides boolean
    comparisons and division, and the helpers the correspondence check uses to
    compare implementation observations with the model *inside* Coq. *)
From Coq Require Export ZArith List Bool Lia ZifyBool Arith.
Export ListNotations.

Ltac Zify.zify_post_hook ::= Z.to_euclidean_division_equations.

(** Indices (as [Z], starting at 0) of the cases on which [ok] is false.
    A [cases.v] file written by the harness ends with
    [Eval vm_compute in mismatches ok cases.]; an empty list means the model
    and the implementation agreed on every case in the file. *)
Fixpoint mismatches_from {A} (ok : A -> bool) (i : Z) (l : list A) : list Z :=
  match l with
  | [] => []
  | x :: r => if ok x then mismatches_from ok (i + 1) r
              else i :: mismatches_from ok (i + 1) r
  end.
Definition mismatches {A} (ok : A -> bool) (l : list A) : list Z :=
  mismatches_from ok 0%Z l.

Lemma mismatches_from_nil {A} (ok : A -> bool) i l :
  mismatches_from ok i l = [] <-> forallb ok l = true.
Proof.
  revert i; induction l as [|x r IH]; intros i; cbn; [tauto|].
  destruct (ok x); cbn; [apply IH|]. split; intros H; discriminate.
Qed.

(** Boolean equality helpers used by the comparison functions. *)
Fixpoint list_eqb {A} (eqb : A -> A -> bool) (a b : list A) : bool :=
  match a, b with
  | [], [] => true
  | x :: a', y :: b' => eqb x y && list_eqb eqb a' b'
  | _, _ => false
  end.

Definition option_eqb {A} (eqb : A -> A -> bool) (a b : option A) : bool :=
  match a, b with
  | None, None => true
  | Some x, Some y => eqb x y
  | _, _ => false
  end.

Definition pair_eqb {A B} (ea : A -> A -> bool) (eb : B -> B -> bool)
  (a b : A * B) : bool := ea (fst a) (fst b) && eb (snd a) (snd b).

Lemma list_eqb_spec {A} (eqb : A -> A -> bool) :
  (forall x y, eqb x y = true <-> x = y) ->
  forall a b, list_eqb eqb a b = true <-> a = b.
Proof.
  intros Heq a; induction a as [|x a IH]; intros [|y b]; cbn; try (split; congruence).
  rewrite andb_true_iff, Heq, IH. split; [intros [-> ->]; reflexivity|intros H; inversion H; auto].
Qed.

(** Association lists keyed by [Z] (Python dicts with small-int keys). *)
Fixpoint zget (k : Z) (m : list (Z * Z)) : Z :=
  match m with
  | [] => 0%Z
  | (k', v) :: r => if Z.eqb k k' then v else zget k r
  end.

(** Heterogeneous pointwise check; false when the lengths differ. *)
Fixpoint forallb2 {A B} (f : A -> B -> bool) (a : list A) (b : list B) : bool :=
  match a, b with
  | [], [] => true
  | x :: a', y :: b' => f x y && forallb2 f a' b'
  | _, _ => false
  end.
