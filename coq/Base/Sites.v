(** Sites — the finite, regenerated lists of source sites used by the two
    library-wide properties (C03, C07), their hand-maintained classification,
    and the boolean check that every regenerated site is classified. *)
From Coq Require Import String List ZArith Bool.
Import ListNotations.
Local Open Scope string_scope.
Local Open Scope Z_scope.

(** (relative file, qualified function, kind, detail, ordinal within the function) *)
Definition site := (string * string * string * string * Z)%type.

Inductive cls :=
| Benign (reason : string)      (* cannot affect the property, for the stated reason *)
| Finding (id : string)         (* a recorded defect *)
| Review (note : string).       (* not yet classified: makes the obligation fail *)

Definition site_eqb (a b : site) : bool :=
  let '(f, q, k, d, o) := a in let '(f', q', k', d', o') := b in
  String.eqb f f' && String.eqb q q' && String.eqb k k' && String.eqb d d' && (o =? o').

Definition is_settled (c : cls) : bool := match c with Review _ => false | _ => true end.

Definition classified (table : list (site * cls)) (s : site) : bool :=
  existsb (fun row => site_eqb (fst row) s && is_settled (snd row)) table.

Definition all_classified (table : list (site * cls)) (sites : list site) : bool := forallb (classified table) sites.

Lemma site_eqb_eq a b : site_eqb a b = true -> a = b.
Proof.
  destruct a as [[[[f q] k] d] o], b as [[[[f' q'] k'] d'] o']; cbn.
  rewrite !andb_true_iff. intros [[[[H1 H2] H3] H4] H5].
  apply String.eqb_eq in H1, H2, H3, H4. apply Z.eqb_eq in H5. subst. reflexivity.
Qed.

(** The meaning of the boolean check: every listed site has a settled row. *)
Lemma all_classified_spec table sites : all_classified table sites = true ->
  forall s, In s sites -> exists c, In (s, c) table /\ is_settled c = true.
Proof.
  unfold all_classified, classified. rewrite forallb_forall. intros H s Hs. specialize (H s Hs).
  apply existsb_exists in H as [[s' c] [Hin Hc]]. cbn in Hc. apply andb_true_iff in Hc as [He Hc].
  apply site_eqb_eq in He. subst. eauto.
Qed.

Definition finding_ids (table : list (site * cls)) : list string :=
  flat_map (fun row => match snd row with Finding id => [id] | _ => [] end) table.
