(** C02 — any_of / all_of as whole combinators over plain inputs: the first
    input to resolve decides any_of (later ones are ignored); all_of resolves at
    the last input with every value in argument order, for ANY order in which
    the inputs resolve. *)
From HS Require Import Base.Prelude Engine.Engine Engine.Script C02.Process.
Local Open Scope Z_scope.

Definition fget (c : ictx) (f : Z) : fut := aget fut0 f (futs (ix_u c)).

(** [f] is an unresolved, not directly awaited input whose only callback is [k]. *)
Definition input_of (c : ictx) (f : Z) (k : cb) : Prop :=
  f_resolved (fget c f) = false /\ f_parked (fget c f) = None /\ f_cbs (fget c f) = [k].

(** [comp] is an unresolved composite without callbacks of its own on which process [pid] waits. *)
Definition waiting_on (c : ictx) (comp pid : Z) (p : proc) : Prop :=
  f_resolved (fget c comp) = false /\ f_cbs (fget c comp) = [] /\ f_parked (fget c comp) = Some pid /\
  alookup pid (procs (ix_u c)) = Some p.

(** any_of: the first input to resolve resolves the composite with (index, value)
    and resumes the waiting process once, at that instant, with that pair. *)
Theorem any_of_first_input fuel now f v c comp idx pid p :
  f <> comp -> input_of c f (CbAny comp idx) -> waiting_on c comp pid p ->
  exists c' k, resolve (S (S fuel)) now f v c = Some c' /\
    ix_new c' = k :: ix_new c /\ ev_time k = now /\ p_kind (ev_pay k) = KCont pid (VPair idx v) /\
    f_resolved (fget c' comp) = true /\ f_value (fget c' comp) = VPair idx v /\ f_parked (fget c' comp) = None /\
    f_resolved (fget c' f) = true /\ f_value (fget c' f) = v /\
    (forall g, g <> f -> g <> comp -> fget c' g = fget c g).
Proof.
  intros Hne (I1 & I2 & I3) (W1 & W2 & W3 & W4). unfold fget in *.
  cbn [resolve]. rewrite I1, I2, I3. cbn [fold_left fire_cb set_u ix_u futs with_futs].
  rewrite !aget_aset_same. cbn [f_parked f_cbs f_resolved f_value].
  rewrite (aget_aset_other fut0 f comp) by congruence. rewrite (aget_aset_other fut0 f comp) by congruence.
  rewrite W1, W3, W2. cbn [fold_left]. unfold resume. cbn [ix_u set_u procs with_futs]. rewrite W4.
  cbn. eexists; eexists. split; [reflexivity|]. cbn.
  rewrite !aget_aset_same. cbn.
  rewrite !(aget_aset_other fut0 comp f) by congruence. rewrite !aget_aset_same. cbn.
  repeat split; auto.
  intros g G1 G2. rewrite !(aget_aset_other fut0 comp g), !(aget_aset_other fut0 f g) by congruence. reflexivity.
Qed.

(** ... and every later input is ignored: no event, the composite is untouched. *)
Theorem any_of_later_ignored fuel now g v c comp j :
  g <> comp -> input_of c g (CbAny comp j) -> f_resolved (fget c comp) = true ->
  exists c', resolve (S (S fuel)) now g v c = Some c' /\ ix_new c' = ix_new c /\ fget c' comp = fget c comp /\
             procs (ix_u c') = procs (ix_u c).
Proof.
  intros Hne (I1 & I2 & I3) W. unfold fget in *.
  cbn [resolve]. rewrite I1, I2, I3. cbn [fold_left fire_cb set_u ix_u futs with_futs].
  rewrite !aget_aset_same. cbn [f_parked f_cbs f_resolved f_value].
  rewrite !(aget_aset_other fut0 g comp) by congruence. rewrite W.
  eexists. split; [reflexivity|]. cbn. rewrite !(aget_aset_other fut0 g comp) by congruence. auto.
Qed.

(** all_of: one input resolving while others are still missing only records its value ... *)
Theorem all_of_input_recorded fuel now f v c comp idx res rem :
  f <> comp -> input_of c f (CbAll comp idx) -> f_resolved (fget c comp) = false ->
  aget ([], 0) comp (alls (ix_u c)) = (res, rem) -> rem <> 1 ->
  exists c', resolve (S (S fuel)) now f v c = Some c' /\ ix_new c' = ix_new c /\
    aget ([], 0) comp (alls (ix_u c')) = (set_nth (Z.to_nat idx) v res, rem - 1) /\
    procs (ix_u c') = procs (ix_u c) /\
    (forall g, g <> f -> fget c' g = fget c g).
Proof.
  intros Hne (I1 & I2 & I3) W A R. unfold fget in *.
  cbn [resolve]. rewrite I1, I2, I3. cbn [fold_left fire_cb set_u ix_u futs with_futs].
  rewrite !aget_aset_same. cbn [f_parked f_cbs f_resolved f_value].
  rewrite !(aget_aset_other fut0 f comp) by congruence. rewrite W. cbn [alls ix_u with_futs set_u]. rewrite A.
  replace (rem - 1 =? 0) with false by lia.
  eexists. split; [reflexivity|]. cbn. rewrite aget_aset_same. repeat split; auto.
  intros g G. rewrite !(aget_aset_other fut0 f g) by congruence. reflexivity.
Qed.

(** ... and the last one resolves the composite with the whole list and resumes the waiter. *)
Theorem all_of_last_input fuel now f v c comp idx res pid p :
  f <> comp -> input_of c f (CbAll comp idx) -> waiting_on c comp pid p ->
  aget ([], 0) comp (alls (ix_u c)) = (res, 1) ->
  exists c' k, resolve (S (S fuel)) now f v c = Some c' /\
    ix_new c' = k :: ix_new c /\ ev_time k = now /\
    p_kind (ev_pay k) = KCont pid (VList (set_nth (Z.to_nat idx) v res)) /\
    f_resolved (fget c' comp) = true /\ f_value (fget c' comp) = VList (set_nth (Z.to_nat idx) v res).
Proof.
  intros Hne (I1 & I2 & I3) (W1 & W2 & W3 & W4) A. unfold fget in *.
  cbn [resolve]. rewrite I1, I2, I3. cbn [fold_left fire_cb set_u ix_u futs with_futs].
  rewrite !aget_aset_same. cbn [f_parked f_cbs f_resolved f_value].
  rewrite !(aget_aset_other fut0 f comp) by congruence. rewrite W1. cbn [alls ix_u with_futs set_u]. rewrite A.
  cbn [Z.sub Z.eqb Z.add Z.opp Z.pos_sub]. cbn [resolve set_u ix_u futs with_futs with_alls].
  rewrite !(aget_aset_other fut0 f comp) by congruence. rewrite W1, W3, W2. cbn [fold_left].
  unfold resume. cbn [ix_u set_u procs with_futs with_alls]. rewrite W4.
  cbn. eexists; eexists. split; [reflexivity|]. cbn. rewrite !aget_aset_same. cbn. repeat split.
Qed.

(* ------------------------------------------------------------------ *)
(** * all_of over any resolution order *)
Definition rstep := (Z * Z * val)%type.       (* input future, its argument index, the value it resolves with *)

Fixpoint resolve_all (fuel : nat) (now : Z) (l : list rstep) (c : ictx) : option ictx :=
  match l with
  | [] => Some c
  | (f, _, v) :: r => match resolve fuel now f v c with Some c1 => resolve_all fuel now r c1 | None => None end
  end.

Lemma set_nth_length {A} n (x : A) l : length (set_nth n x l) = length l.
Proof. revert n; induction l as [|y r IH]; intros [|n]; cbn; auto. Qed.

Lemma nth_set_nth_same {A} n (x d : A) l : (n < length l)%nat -> nth n (set_nth n x l) d = x.
Proof. revert n; induction l as [|y r IH]; intros [|n] H; cbn in *; try lia; auto. apply IH. lia. Qed.

Lemma nth_set_nth_other {A} n m (x d : A) l : n <> m -> nth m (set_nth n x l) d = nth m l d.
Proof. revert n m; induction l as [|y r IH]; intros [|n] [|m] H; cbn; auto; try congruence. Qed.

(** Whatever the order in which the inputs resolve (each once, at any instants —
    here within one cascade for brevity of the state threading), all_of resolves
    exactly at the last of them, with every value at its argument position. *)
Theorem all_of_any_order fuel now comp pid p : forall l c res,
  l <> [] ->
  NoDup (map (fun s => fst (fst s)) l) -> NoDup (map (fun s => Z.to_nat (snd (fst s))) l) ->
  (forall f idx v, In (f, idx, v) l -> f <> comp /\ input_of c f (CbAll comp idx) /\ 0 <= idx /\ (Z.to_nat idx < length res)%nat) ->
  waiting_on c comp pid p ->
  aget ([], 0) comp (alls (ix_u c)) = (res, Z.of_nat (length l)) ->
  exists c' k res', resolve_all (S (S fuel)) now l c = Some c' /\
    ix_new c' = k :: ix_new c /\ ev_time k = now /\ p_kind (ev_pay k) = KCont pid (VList res') /\
    f_resolved (fget c' comp) = true /\ f_value (fget c' comp) = VList res' /\ length res' = length res /\
    (forall f idx v, In (f, idx, v) l -> nth (Z.to_nat idx) res' VNone = v) /\
    (forall m, ~ In m (map (fun s => Z.to_nat (snd (fst s))) l) -> nth m res' VNone = nth m res VNone).
Proof.
  induction l as [|[[f idx] v] r IH]; intros c res Hne ND1 ND2 Hin W A; [congruence|].
  inversion ND1 as [|? ? Nf ND1']; subst. inversion ND2 as [|? ? Ni ND2']; subst. cbn [map fst snd] in *.
  destruct (Hin f idx v (or_introl eq_refl)) as (H1 & H2 & H3 & H4).
  destruct r as [|s r'].
  - (* the last input *)
    cbn [length] in A. destruct (all_of_last_input fuel now f v c comp idx res pid p H1 H2 W A) as (c' & k & R & E1 & E2 & E3 & E4 & E5).
    exists c', k, (set_nth (Z.to_nat idx) v res). cbn [resolve_all]. rewrite R.
    split; [reflexivity|]. split; [exact E1|]. split; [exact E2|]. split; [exact E3|]. split; [exact E4|]. split; [exact E5|].
    split; [apply set_nth_length|]. split.
    + intros f0 idx0 v0 [X|[]]. inversion X; subst. apply nth_set_nth_same, H4.
    + intros m Hm. apply nth_set_nth_other. intros X. apply Hm. left. exact X.
  - (* an earlier input: recorded, the composite stays pending *)
    set (l' := s :: r') in *.
    assert (Hrem : Z.of_nat (length ((f, idx, v) :: l')) <> 1) by (unfold l'; cbn [length]; lia).
    destruct W as (W1 & W2 & W3 & W4).
    destruct (all_of_input_recorded fuel now f v c comp idx res _ H1 H2 W1 A Hrem) as (c1 & R & E1 & E2 & E3 & E4).
    assert (Hin' : forall f0 idx0 v0, In (f0, idx0, v0) l' ->
              f0 <> comp /\ input_of c1 f0 (CbAll comp idx0) /\ 0 <= idx0 /\ (Z.to_nat idx0 < length (set_nth (Z.to_nat idx) v res))%nat).
    { intros f0 idx0 v0 Hx. destruct (Hin f0 idx0 v0 (or_intror Hx)) as (G1 & (G2a & G2b & G2c) & G3 & G4).
      assert (f0 <> f) by (intros ->; apply Nf; apply (in_map (fun s => fst (fst s)) l' _ Hx)).
      unfold input_of. rewrite (E4 f0 H). rewrite set_nth_length. auto. }
    assert (W' : waiting_on c1 comp pid p).
    { unfold waiting_on. rewrite (E4 comp) by congruence. rewrite E3. auto. }
    assert (A' : aget ([], 0) comp (alls (ix_u c1)) = (set_nth (Z.to_nat idx) v res, Z.of_nat (length l'))).
    { rewrite E2. f_equal. cbn [length]. lia. }
    destruct (IH c1 (set_nth (Z.to_nat idx) v res) ltac:(unfold l'; discriminate) ND1' ND2' Hin' W' A')
      as (c' & k & res' & R' & F1 & F2 & F3 & F4 & F5 & F6 & F7 & F8).
    exists c', k, res'. cbn [resolve_all]. rewrite R.
    split; [exact R'|]. split; [rewrite F1, E1; reflexivity|]. split; [exact F2|]. split; [exact F3|]. split; [exact F4|]. split; [exact F5|].
    split; [rewrite F6; apply set_nth_length|]. split.
    + intros f0 idx0 v0 [X|X]; [|apply (F7 f0 idx0 v0 X)]. inversion X; subst.
      rewrite (F8 (Z.to_nat idx0) Ni). apply nth_set_nth_same, H4.
    + intros m Hm. rewrite F8 by (intros X; apply Hm; right; exact X).
      apply nth_set_nth_other. intros X. apply Hm. left. exact X.
Qed.

Example all_of_any_order_satisfiable :
  let u := mkU [] [(7, mkProc [] [] 0 0 false (-1))] 8
             [(1, mkFut false VNone None [CbAll 3 0]); (2, mkFut false VNone None [CbAll 3 1]); (3, mkFut false VNone (Some 7) [])] 4
             [(3, ([VNone; VNone], 2))] [] 0 [] [] [] in
  match resolve_all 5 100 [(2, 1, VInt 20); (1, 0, VInt 10)] (mkI u 0 [] []) with
  | Some c' => f_value (fget c' 3) = VList [VInt 10; VInt 20] /\ length (ix_new c') = 1%nat
  | None => False
  end.
Proof. vm_compute. split; reflexivity. Qed.
