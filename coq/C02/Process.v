(** C02 — lemmas about generator processes and futures in the script
    interpreter (Engine/Script.v): what one yield, one finish, one park, one
    resolve and one combinator callback do, for every state. *)
From HS Require Import Base.Prelude Engine.Engine Engine.Script.
Local Open Scope Z_scope.

(* ------------------------------------------------------------------ *)
(** * Association-list facts *)

Lemma aget_aset_same {V} (d : V) k v m : aget d k (aset k v m) = v.
Proof.
  induction m as [|[k' v'] r IH]; cbn; [rewrite Z.eqb_refl; reflexivity|].
  destruct (k =? k') eqn:E; cbn; [rewrite Z.eqb_refl; reflexivity|]. rewrite E. exact IH.
Qed.

Lemma aget_aset_other {V} (d : V) k k2 v m : k2 <> k -> aget d k2 (aset k v m) = aget d k2 m.
Proof.
  intros Hne. induction m as [|[k' v'] r IH]; cbn.
  - destruct (Z.eqb_spec k2 k); [congruence|reflexivity].
  - destruct (Z.eqb_spec k k'); cbn.
    + subst. destruct (Z.eqb_spec k2 k'); [congruence|reflexivity].
    + destruct (k2 =? k'); [reflexivity|exact IH].
Qed.

(* ------------------------------------------------------------------ *)
(** * Yielding a delay *)

(** A process that yields a delay [dt] (with side-effect events [effs]) while
    handling the continuation [e] schedules exactly one further continuation of
    itself, at [ev_time e + dt], carrying no value; the side-effect events are
    created first, at the instant of the yield; the process keeps the rest of
    its body. *)
Theorem yield_resumes_after_delay fuel now e pid p dt effs r c c' :
  advance fuel now e pid p (GYield dt effs :: r) c = Some c' ->
  let c1 := emit_all now effs c in
  exists k,
    ix_new c' = k :: ix_new c1 /\
    ev_time k = ev_time e + dt /\ ev_sort k = ix_ctr c1 /\ ix_ctr c' = ix_ctr c1 + 1 /\
    p_kind (ev_pay k) = KCont pid VNone /\
    ev_daemon k = pr_daemon p /\
    alookup pid (procs (ix_u c')) =
      Some (mkProc r (pr_ret p) (pr_type p) (pr_target p) (pr_daemon p) (pr_hid p)).
Proof.
  cbn. intros H. inversion H; subst; clear H. eexists. cbn.
  repeat split.
  generalize (procs (ix_u (emit_all now effs c))) as m.
  induction m as [|[k' v'] m IH]; cbn; [rewrite Z.eqb_refl; reflexivity|].
  destruct (pid =? k') eqn:E; cbn; [rewrite Z.eqb_refl; reflexivity|]. rewrite E. exact IH.
Qed.

(* ------------------------------------------------------------------ *)
(** * Completion hooks run once *)

Lemma create_emit_nohooks_hooks now e0 c :
  hooks (ix_u (fst (create_emit now (mkEmit e0 (-1) []) c))) = hooks (ix_u c) /\
  ulog (ix_u (fst (create_emit now (mkEmit e0 (-1) []) c))) = ulog (ix_u c).
Proof. unfold create_emit; cbn. split; reflexivity. Qed.

Lemma emit0_all_hooks now es : forall c,
  hooks (ix_u (emit0_all now es c)) = hooks (ix_u c) /\ ulog (ix_u (emit0_all now es c)) = ulog (ix_u c).
Proof.
  unfold emit0_all. induction es as [|e r IH]; intros c; cbn; [split; reflexivity|].
  match goal with |- context [emit_all now _ ?cc] => destruct (IH cc) as [I1 I2] end.
  rewrite I1, I2. cbn. split; reflexivity.
Qed.

(** After the completion hooks of list [hid] have run, the list is empty: a
    second run creates no event and logs nothing (hooks take effect once). *)
Theorem hooks_cleared_after_run now hid c : 0 <= hid ->
  aget [] hid (hooks (ix_u (run_hooks now hid c))) = [].
Proof.
  intros Hh. unfold run_hooks. destruct (hid <? 0) eqn:E; [lia|].
  set (c0 := set_u c _).
  assert (H0 : aget [] hid (hooks (ix_u c0)) = []) by (unfold c0; cbn; apply aget_aset_same).
  clearbody c0. generalize 0 as i. revert c0 H0.
  induction (aget [] hid (hooks (ix_u c))) as [|h hs IH]; intros c0 H0 i; cbn; [exact H0|].
  apply IH. destruct (emit0_all_hooks now h (set_u c0 (add_log (ix_u c0) (UHook now hid i)))) as [H1 _].
  rewrite H1. cbn. exact H0.
Qed.

Theorem hooks_second_run_is_noop now now' hid c : 0 <= hid ->
  let c1 := run_hooks now hid c in
  ix_new (run_hooks now' hid c1) = ix_new c1 /\ ulog (ix_u (run_hooks now' hid c1)) = ulog (ix_u c1) /\
  ix_ctr (run_hooks now' hid c1) = ix_ctr c1.
Proof.
  intros Hh c1. pose proof (hooks_cleared_after_run now hid c Hh) as Hc. fold c1 in Hc.
  assert (E : run_hooks now' hid c1 = set_u c1 (with_hooks (ix_u c1) (aset hid [] (hooks (ix_u c1))))).
  { unfold run_hooks. destruct (hid <? 0) eqn:E; [lia|]. rewrite Hc. reflexivity. }
  rewrite E. cbn. auto.
Qed.

(* ------------------------------------------------------------------ *)
(** * Futures *)

(** Resolving a resolved future changes nothing (state equality). *)
Theorem resolve_twice_is_noop fuel now f v c :
  f_resolved (aget fut0 f (futs (ix_u c))) = true -> resolve (S fuel) now f v c = Some c.
Proof. intros H. cbn. rewrite H. reflexivity. Qed.

(** [resume] pushes exactly one continuation of the parked process, at the
    current clock, carrying the value, and clears the parked slot. *)
Theorem resume_spec now f pid v c p :
  alookup pid (procs (ix_u c)) = Some p ->
  let c' := resume now f pid v c in
  exists k, ix_new c' = k :: ix_new c /\ ev_time k = now /\ ev_sort k = ix_ctr c /\
            p_kind (ev_pay k) = KCont pid v /\ p_target (ev_pay k) = pr_target p /\
            ix_ctr c' = ix_ctr c + 1 /\
            f_parked (aget fut0 f (futs (ix_u c'))) = None.
Proof.
  intros Hp. unfold resume. rewrite Hp. cbn. eexists. repeat split. rewrite aget_aset_same. reflexivity.
Qed.

(** Parking on an already-resolved future resumes the process at once (same
    instant) with the resolved value. *)
Theorem park_on_resolved_resumes_now now f pid c p :
  alookup pid (procs (ix_u c)) = Some p ->
  f_resolved (aget fut0 f (futs (ix_u c))) = true ->
  f_parked (aget fut0 f (futs (ix_u c))) = None ->
  exists c' k, park now f pid c = Some c' /\ ix_new c' = k :: ix_new c /\ ev_time k = now /\
               p_kind (ev_pay k) = KCont pid (f_value (aget fut0 f (futs (ix_u c)))).
Proof.
  intros Hp Hr Hk. unfold park. rewrite Hk, Hr.
  eexists; eexists. split; [reflexivity|]. unfold resume; cbn. rewrite Hp. cbn. repeat split.
Qed.

(** Parking on an unresolved future schedules nothing. *)
Theorem park_on_pending_waits now f pid c :
  f_resolved (aget fut0 f (futs (ix_u c))) = false ->
  f_parked (aget fut0 f (futs (ix_u c))) = None ->
  exists c', park now f pid c = Some c' /\ ix_new c' = ix_new c /\ ix_ctr c' = ix_ctr c /\
             f_parked (aget fut0 f (futs (ix_u c'))) = Some pid.
Proof.
  intros Hr Hk. unfold park. rewrite Hk, Hr. eexists. split; [reflexivity|]. cbn.
  repeat split. rewrite aget_aset_same. reflexivity.
Qed.

(** A future can be yielded by one process only: the second park raises. *)
Theorem double_park_raises now f pid c q :
  f_parked (aget fut0 f (futs (ix_u c))) = Some q -> park now f pid c = None.
Proof. intros H. unfold park. rewrite H. destruct (f_resolved _); reflexivity. Qed.

(** Resolving a pending future with a parked process and no combinator
    callbacks pushes exactly one continuation, at the resolve instant, with the
    value; afterwards the future is resolved and nobody is parked on it, so no
    second resume can happen ([resolve_twice_is_noop]). *)
Theorem resolve_resumes_parked_once fuel now f v c pid p :
  f_resolved (aget fut0 f (futs (ix_u c))) = false ->
  f_parked (aget fut0 f (futs (ix_u c))) = Some pid ->
  f_cbs (aget fut0 f (futs (ix_u c))) = [] ->
  alookup pid (procs (ix_u c)) = Some p ->
  exists c' k, resolve (S fuel) now f v c = Some c' /\
    ix_new c' = k :: ix_new c /\ ev_time k = now /\ p_kind (ev_pay k) = KCont pid v /\
    f_resolved (aget fut0 f (futs (ix_u c'))) = true /\
    f_value (aget fut0 f (futs (ix_u c'))) = v /\
    f_parked (aget fut0 f (futs (ix_u c'))) = None.
Proof.
  intros Hr Hk Hc Hp. cbn. rewrite Hr, Hk, Hc. cbn. unfold resume; cbn. rewrite Hp. cbn.
  eexists; eexists. split; [reflexivity|]. cbn. rewrite !aget_aset_same. cbn. repeat split.
Qed.

(** One [any_of] callback: resolves the composite with (index, value) unless it
    is already resolved (then: no effect, by [resolve_twice_is_noop]). *)
Theorem any_of_callback_spec rec v c comp idx :
  fire_cb rec v (Some c) (CbAny comp idx) = rec comp (VPair idx v) c.
Proof. reflexivity. Qed.

(** One [all_of] callback: a resolved composite ignores it; otherwise slot
    [idx] receives the value, and the composite resolves with all the values in
    argument order exactly when the last missing input settles. *)
Theorem all_of_callback_spec rec v c comp idx res rem :
  f_resolved (aget fut0 comp (futs (ix_u c))) = false ->
  aget ([], 0) comp (alls (ix_u c)) = (res, rem) ->
  let res' := set_nth (Z.to_nat idx) v res in
  let c' := set_u c (with_alls (ix_u c) (aset comp (res', rem - 1) (alls (ix_u c)))) in
  fire_cb rec v (Some c) (CbAll comp idx) =
    if rem - 1 =? 0 then rec comp (VList res') c' else Some c'.
Proof. intros Hr Ha. cbn. rewrite Hr, Ha. reflexivity. Qed.

Theorem all_of_callback_ignored_when_resolved rec v c comp idx :
  f_resolved (aget fut0 comp (futs (ix_u c))) = true ->
  fire_cb rec v (Some c) (CbAll comp idx) = Some c.
Proof. intros Hr. cbn. rewrite Hr. reflexivity. Qed.

(** A finishing process emits its returned events at the finish instant, is
    removed (no later step of the same process exists), and runs its hooks. *)
Theorem finish_spec fuel now e pid p c :
  advance fuel now e pid p [] c =
    Some (run_hooks (ev_time e) (pr_hid p)
            (set_u (emit_all now (pr_ret p) c)
               (add_log (with_procs (ix_u (emit_all now (pr_ret p) c))
                           (filter (fun x => negb (fst x =? pid)) (procs (ix_u (emit_all now (pr_ret p) c)))))
                        (UFinish now pid)))).
Proof. reflexivity. Qed.

Lemma alookup_filter_out pid (m : list (Z * proc)) :
  alookup pid (filter (fun x => negb (fst x =? pid)) m) = None.
Proof.
  induction m as [|[k v] r IH]; cbn; [reflexivity|].
  destruct (Z.eqb_spec k pid); cbn; [exact IH|].
  destruct (Z.eqb_spec pid k); [congruence|exact IH].
Qed.
