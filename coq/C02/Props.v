(** Property C02 — generator processes and futures resume at the right
    instant, with the right value, once.  Statements about the script
    interpreter (the model of Event.invoke / ProcessContinuation.invoke /
    sim_future.py) for ALL states; the engine-level consequence "a scheduled
    continuation is delivered exactly at its timestamp, once" is C01. *)
From HS Require Import Base.Prelude Engine.Engine Engine.Script Engine.EngineProofs Engine.ScriptProofs C02.Process C02.Combinators.
Local Open Scope Z_scope.

Theorem c02_yield_resumes_after_delay : forall fuel now e pid p dt effs r c c',
  advance fuel now e pid p (GYield dt effs :: r) c = Some c' ->
  let c1 := emit_all now effs c in
  exists k,
    ix_new c' = k :: ix_new c1 /\
    ev_time k = ev_time e + dt /\ ev_sort k = ix_ctr c1 /\ ix_ctr c' = ix_ctr c1 + 1 /\
    p_kind (ev_pay k) = KCont pid VNone /\
    ev_daemon k = pr_daemon p /\
    alookup pid (procs (ix_u c')) =
      Some (mkProc r (pr_ret p) (pr_type p) (pr_target p) (pr_daemon p) (pr_hid p)).
Proof. exact yield_resumes_after_delay. Qed.
Print Assumptions c02_yield_resumes_after_delay.

(** ... and every delivery happens with the clock at the event's timestamp
    (so the process resumes exactly [dt] after the yield). *)
Theorem c02_resume_instant_is_timestamp : forall fuel start end_ns p pre e c,
  In (e, c, Delivered) (log (out_state (script_run fuel start end_ns p pre))) -> c = ev_time e.
Proof. intros. eapply delivered_clock; [apply script_run_inv|eassumption]. Qed.
Print Assumptions c02_resume_instant_is_timestamp.

Theorem c02_finish_effects : forall fuel now e pid p c,
  advance fuel now e pid p [] c =
    Some (run_hooks (ev_time e) (pr_hid p)
            (set_u (emit_all now (pr_ret p) c)
               (add_log (with_procs (ix_u (emit_all now (pr_ret p) c))
                           (filter (fun x => negb (fst x =? pid)) (procs (ix_u (emit_all now (pr_ret p) c)))))
                        (UFinish now pid)))).
Proof. exact finish_spec. Qed.
Print Assumptions c02_finish_effects.

Theorem c02_finished_process_is_gone : forall pid (m : list (Z * proc)),
  alookup pid (filter (fun x => negb (fst x =? pid)) m) = None.
Proof. exact alookup_filter_out. Qed.
Print Assumptions c02_finished_process_is_gone.

Theorem c02_hooks_run_once : forall now now' hid c, 0 <= hid ->
  let c1 := run_hooks now hid c in
  ix_new (run_hooks now' hid c1) = ix_new c1 /\ ulog (ix_u (run_hooks now' hid c1)) = ulog (ix_u c1) /\
  ix_ctr (run_hooks now' hid c1) = ix_ctr c1.
Proof. exact hooks_second_run_is_noop. Qed.
Print Assumptions c02_hooks_run_once.

Theorem c02_resolve_twice_is_noop : forall fuel now f v c,
  f_resolved (aget fut0 f (futs (ix_u c))) = true -> resolve (S fuel) now f v c = Some c.
Proof. exact resolve_twice_is_noop. Qed.
Print Assumptions c02_resolve_twice_is_noop.

Theorem c02_resolve_resumes_parked_once : forall fuel now f v c pid p,
  f_resolved (aget fut0 f (futs (ix_u c))) = false ->
  f_parked (aget fut0 f (futs (ix_u c))) = Some pid ->
  f_cbs (aget fut0 f (futs (ix_u c))) = [] ->
  alookup pid (procs (ix_u c)) = Some p ->
  exists c' k, resolve (S fuel) now f v c = Some c' /\
    ix_new c' = k :: ix_new c /\ ev_time k = now /\ p_kind (ev_pay k) = KCont pid v /\
    f_resolved (aget fut0 f (futs (ix_u c'))) = true /\
    f_value (aget fut0 f (futs (ix_u c'))) = v /\
    f_parked (aget fut0 f (futs (ix_u c'))) = None.
Proof. exact resolve_resumes_parked_once. Qed.
Print Assumptions c02_resolve_resumes_parked_once.

Theorem c02_park_on_resolved_resumes_now : forall now f pid c p,
  alookup pid (procs (ix_u c)) = Some p ->
  f_resolved (aget fut0 f (futs (ix_u c))) = true ->
  f_parked (aget fut0 f (futs (ix_u c))) = None ->
  exists c' k, park now f pid c = Some c' /\ ix_new c' = k :: ix_new c /\ ev_time k = now /\
               p_kind (ev_pay k) = KCont pid (f_value (aget fut0 f (futs (ix_u c)))).
Proof. exact park_on_resolved_resumes_now. Qed.
Print Assumptions c02_park_on_resolved_resumes_now.

Theorem c02_park_on_pending_waits : forall now f pid c,
  f_resolved (aget fut0 f (futs (ix_u c))) = false ->
  f_parked (aget fut0 f (futs (ix_u c))) = None ->
  exists c', park now f pid c = Some c' /\ ix_new c' = ix_new c /\ ix_ctr c' = ix_ctr c /\
             f_parked (aget fut0 f (futs (ix_u c'))) = Some pid.
Proof. exact park_on_pending_waits. Qed.
Print Assumptions c02_park_on_pending_waits.

(** The error branch: yielding a future that another process is parked on. *)
Theorem c02_double_park_raises : forall now f pid c q,
  f_parked (aget fut0 f (futs (ix_u c))) = Some q -> park now f pid c = None.
Proof. exact double_park_raises. Qed.
Print Assumptions c02_double_park_raises.

(** any_of / all_of: one-step semantics of their settle callbacks (PARTIAL as
    statements about arbitrary NESTING: the whole-combinator theorems below are
    for composites over plain inputs; nested composites, where two inputs can
    settle in the same cascade, are checked by the correspondence and the
    implementation-side oracle). *)
Theorem c02_any_of_callback_partial : forall rec v c comp idx,
  fire_cb rec v (Some c) (CbAny comp idx) = rec comp (VPair idx v) c.
Proof. exact any_of_callback_spec. Qed.
Print Assumptions c02_any_of_callback_partial.

Theorem c02_all_of_callback_partial : forall rec v c comp idx res rem,
  f_resolved (aget fut0 comp (futs (ix_u c))) = false ->
  aget ([], 0) comp (alls (ix_u c)) = (res, rem) ->
  let res' := set_nth (Z.to_nat idx) v res in
  let c' := set_u c (with_alls (ix_u c) (aset comp (res', rem - 1) (alls (ix_u c)))) in
  fire_cb rec v (Some c) (CbAll comp idx) =
    if rem - 1 =? 0 then rec comp (VList res') c' else Some c'.
Proof. exact all_of_callback_spec. Qed.
Print Assumptions c02_all_of_callback_partial.

(** Non-vacuity: a process waits on all_of(f0, any_of(f0, f1)); another entity
    resolves f1 then f0 at 5 ns: the waiter resumes at 5 ns with [7; (1, 9)]. *)
Example c02_example :
  let p := [[(0, BGen [GWait (FAll [FId 0; FAny [FId 0; FId 1]])] []);
             (1, BImm [AEff (EResolve 1 9); AEff (EResolve 0 7)])]] in
  let pre := [mkPre 0 (mkEmit (mkEmit0 0 0 0 false) (-1) []) false;
              mkPre 5 (mkEmit (mkEmit0 0 0 1 false) (-1) []) false] in
  rev (ulog (user (out_state (script_run 50 0 (Some 100) p pre))))
  = [UHandle 0 0 0; UResume 0 0 VNone; UHandle 5 0 1;
     UResume 5 0 (VList [VInt 7; VPair 1 (VInt 9)]); UFinish 5 0].
Proof. vm_compute. reflexivity. Qed.

(** any_of / all_of as WHOLE combinators over plain inputs (each input an
    unresolved future that is not awaited directly and carries this composite's
    callback only; the composite has a waiting process and no callbacks of its
    own, i.e. it is not nested): any_of resumes the waiter exactly once, at the
    instant the FIRST input resolves, with (index, value) ... *)
Theorem c02_any_of_first_input : forall fuel now f v c comp idx pid p,
  f <> comp -> input_of c f (CbAny comp idx) -> waiting_on c comp pid p ->
  exists c' k, resolve (S (S fuel)) now f v c = Some c' /\
    ix_new c' = k :: ix_new c /\ ev_time k = now /\ p_kind (ev_pay k) = KCont pid (VPair idx v) /\
    f_resolved (fget c' comp) = true /\ f_value (fget c' comp) = VPair idx v /\ f_parked (fget c' comp) = None /\
    f_resolved (fget c' f) = true /\ f_value (fget c' f) = v /\
    (forall g, g <> f -> g <> comp -> fget c' g = fget c g).
Proof. exact any_of_first_input. Qed.
Print Assumptions c02_any_of_first_input.

(** ... every later input is ignored (no event, composite untouched) ... *)
Theorem c02_any_of_later_ignored : forall fuel now g v c comp j,
  g <> comp -> input_of c g (CbAny comp j) -> f_resolved (fget c comp) = true ->
  exists c', resolve (S (S fuel)) now g v c = Some c' /\ ix_new c' = ix_new c /\ fget c' comp = fget c comp /\
             procs (ix_u c') = procs (ix_u c).
Proof. exact any_of_later_ignored. Qed.
Print Assumptions c02_any_of_later_ignored.

(** ... and all_of, for ANY order in which its inputs resolve (each once),
    resolves exactly at the last of them — one continuation of the waiter, at
    that instant — with every value at its argument position. *)
Theorem c02_all_of_any_order : forall fuel now comp pid p l c res,
  l <> [] ->
  NoDup (map (fun s => fst (fst s)) l) -> NoDup (map (fun s => Z.to_nat (snd (fst s))) l) ->
  (forall f idx v, In (f, idx, v) l -> f <> comp /\ input_of c f (CbAll comp idx) /\ 0 <= idx /\ (Z.to_nat idx < length res)%nat) ->
  waiting_on c comp pid p ->
  aget ([], 0) comp (alls (ix_u c)) = (res, Z.of_nat (length l)) ->
  exists c' k res', resolve_all (S (S fuel)) now l c = Some c' /\
    ix_new c' = k :: ix_new c /\ ev_time k = now /\ p_kind (ev_pay k) = KCont pid (VList res') /\
    f_resolved (fget c' comp) = true /\ f_value (fget c' comp) = VList res' /\ length res' = length res /\
    (forall f idx v, In (f, idx, v) l -> nth (Z.to_nat idx) res' VNone = v) /\
    (forall m, ~ In m (map (fun s => Z.to_nat (snd (fst s))) l) -> nth m res' VNone = nth m res VNone).
Proof. exact all_of_any_order. Qed.
Print Assumptions c02_all_of_any_order.
