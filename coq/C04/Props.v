(** Property C04 — observing, pausing or stepping a run does not change it.
    Statements for ALL scripts, control sessions (any sequence of pause / start /
    step(n) / resume / breakpoint insertion), end_time choices and fuel. *)
From HS Require Import Base.Prelude Engine.Engine Engine.Script Engine.EngineProofs Engine.ScriptProofs
  Engine.Control Engine.ControlProofs Engine.ControlScript C04.Lemmas.
Local Open Scope Z_scope.

(** The instrumented loop (control attached, tracing or recorder on) and the
    fast loop are the same function of the state. *)
Theorem c04_instrumented_loop_equals_fast_loop : forall fuel t (s : sst),
  run_slow invoke_script fuel (Some t) s = run_fast invoke_script fuel t s.
Proof. exact (run_slow_eq_fast pay ustate invoke_script). Qed.
Print Assumptions c04_instrumented_loop_equals_fast_loop.

(** Whatever the session, the state it reaches is a state of the uninterrupted
    run (same deliveries so far, same component state); a failed session failed
    exactly where the uninterrupted run raises. *)
Theorem c04_session_visits_only_run_states : forall fuel end_ns (s0 : sst) ks,
  sess_ok pay ustate invoke_script end_ns s0 (run_session invoke_script etype_of metric_of fuel end_ns s0 ks).
Proof. exact (session_ok pay ustate invoke_script etype_of metric_of). Qed.
Print Assumptions c04_session_visits_only_run_states.

(** A session that runs to completion ends in exactly the final state of the
    uninterrupted run. *)
Theorem c04_session_ends_like_uninterrupted_run : forall fuel end_ns (s0 : sst) ks,
  let x := run_session invoke_script etype_of metric_of fuel end_ns s0 ks in
  s_phase x = Done ->
  exists n, forall fuel', (n <= fuel')%nat -> run_slow invoke_script fuel' end_ns s0 = Stopped (s_st x).
Proof. exact (session_completes_like_uninterrupted pay ustate invoke_script etype_of metric_of). Qed.
Print Assumptions c04_session_ends_like_uninterrupted_run.

(** step(n) delivers exactly n events (skipped pops do not count) unless the
    run ends first. *)
Theorem c04_step_n_exact : forall fuel end_ns k (s : sst), 0 <= k ->
  match citerate invoke_script etype_of metric_of fuel end_ns (mkCtl false (Some k) []) s with
  | CPaused c' s' => processed s' = processed s + k
  | CStopped c' s' => exists j, 0 <= j <= k /\ processed s' = processed s + (k - j)
  | _ => True
  end.
Proof. exact (step_n_exact pay ustate invoke_script etype_of metric_of). Qed.
Print Assumptions c04_step_n_exact.

(** A breakpoint pauses right after the first delivery that satisfies it. *)
Theorem c04_breakpoint_pauses_after_first_hit : forall end_ns c (s : sst) e h s',
  heap s = e :: h ->
  match end_ns with None => true | Some t => t >=? clock s end = true ->
  should_pause c = false ->
  (match end_ns with None => true | Some _ => false end) && negb (0 <? primary s) = false ->
  is_cancelled s e || (ev_time e <? clock s) = false ->
  pop_and_handle invoke_script s e h = Running s' ->
  let c' := mkCtl (pause_req c) (match steps c with Some k => Some (k - 1) | None => None end)
                  (filter (fun b => negb (should_break etype_of metric_of s' e b && bp_one b)) (bps c)) in
  cstep invoke_script etype_of metric_of end_ns c s =
    if existsb (should_break etype_of metric_of s' e) (bps c) then CPaused c' s' else CRunning c' s'.
Proof. exact (breakpoint_pauses_after_first_hit pay ustate invoke_script etype_of metric_of). Qed.
Print Assumptions c04_breakpoint_pauses_after_first_hit.

(** All C01 guarantees survive any control session. *)
Theorem c04_session_keeps_engine_invariant : forall fuel start end_ns p pre ks,
  let x := run_session invoke_script etype_of metric_of fuel end_ns (script_init start p pre) ks in
  s_phase x <> Failed -> Inv pay ustate (s_st x).
Proof. exact session_inv. Qed.
Print Assumptions c04_session_keeps_engine_invariant.
