(** C04 — the breakpoint predicates, tied to the code: [should_break] of
    TimeBreakpoint, EventCountBreakpoint and EventTypeBreakpoint as REGENERATED
    from core/control/breakpoints.py ([Gen/BreakpointGen.v], py2coq) on the
    context SimulationControl builds after a delivery (clock, events processed,
    the event just delivered) are the model's [should_break]; [one_shot] is
    [bp_one].  (MetricBreakpoint reads an entity attribute through getattr and
    stays hand-modelled; ConditionBreakpoint is user code.) *)
From HS Require Import Base.Prelude Base.PyLib Engine.Engine Engine.Control Gen.BreakpointGen.
Local Open Scope Z_scope.

(** Semantic reading, independent of how the comparison is written in the source. *)
Lemma breakpoints_spec (c : BreakpointContext) t n ty one :
  (TimeBreakpoint_should_break (mkTimeBreakpoint t one) c = true <-> t <= BreakpointContext_current_time c)
  /\ (EventCountBreakpoint_should_break (mkEventCountBreakpoint n one) c = true <-> n <= BreakpointContext_events_processed c)
  /\ (EventTypeBreakpoint_should_break (mkEventTypeBreakpoint ty one) c = true <-> Event_event_type (BreakpointContext_last_event c) = ty).
Proof.
  unfold TimeBreakpoint_should_break, EventCountBreakpoint_should_break, EventTypeBreakpoint_should_break. cbn.
  repeat split; intros; lia.
Qed.

Section Tie.
Variables P U : Type.
Variable etype : P -> Z.
Variable metric : U -> Z -> option Z.

(** the context after delivering [e] in state [s] *)
Definition ctx_of (s : @st P U) (e : @ev P) : BreakpointContext :=
  mkBreakpointContext (clock s) (processed s) (mkEvent (etype (ev_pay e))).

Lemma tie_breakpoints (s : @st P U) (e : @ev P) t n ty one :
  TimeBreakpoint_should_break (mkTimeBreakpoint t one) (ctx_of s e) = should_break etype metric s e (BTime t one)
  /\ EventCountBreakpoint_should_break (mkEventCountBreakpoint n one) (ctx_of s e) = should_break etype metric s e (BCount n one)
  /\ EventTypeBreakpoint_should_break (mkEventTypeBreakpoint ty one) (ctx_of s e) = should_break etype metric s e (BType ty one)
  /\ TimeBreakpoint_one_shot (mkTimeBreakpoint t one) = bp_one (BTime t one)
  /\ EventCountBreakpoint_one_shot (mkEventCountBreakpoint n one) = bp_one (BCount n one)
  /\ EventTypeBreakpoint_one_shot (mkEventTypeBreakpoint ty one) = bp_one (BType ty one).
Proof.
  destruct (breakpoints_spec (ctx_of s e) t n ty one) as (A & B & C).
  split; [apply Bool.eq_true_iff_eq; rewrite A; unfold should_break, ctx_of; cbn; lia|].
  split; [apply Bool.eq_true_iff_eq; rewrite B; unfold should_break, ctx_of; cbn; lia|].
  split; [apply Bool.eq_true_iff_eq; rewrite C; unfold should_break, ctx_of; cbn; lia|].
  repeat split.
Qed.
End Tie.

