(** C04 — the engine invariant (hence every C01 clause) holds in every state a
    control session can reach. *)
From HS Require Import Base.Prelude Engine.Engine Engine.Script Engine.EngineProofs Engine.ScriptProofs
  Engine.Control Engine.ControlProofs Engine.ControlScript.
Local Open Scope Z_scope.

Lemma steps_to_inv end_ns (s s' : sst) :
  steps_to pay ustate invoke_script end_ns s s' -> Inv pay ustate s -> Inv pay ustate s'.
Proof.
  induction 1 as [s|s s1 s' Hs _ IH]; intros I; [exact I|]. apply IH.
  pose proof (step_slow_inv pay ustate invoke_script invoke_script_ok end_ns s I) as H. rewrite Hs in H. exact H.
Qed.

Theorem session_inv fuel start end_ns p pre ks :
  let x := run_session invoke_script etype_of metric_of fuel end_ns (script_init start p pre) ks in
  s_phase x <> Failed -> Inv pay ustate (s_st x).
Proof.
  intros x Hf. pose proof (session_ok pay ustate invoke_script etype_of metric_of fuel end_ns (script_init start p pre) ks) as H.
  fold x in H. unfold sess_ok in H.
  destruct (s_phase x); try (eapply steps_to_inv; [exact H|apply script_init_inv]).
  - destruct H as [H _]. eapply steps_to_inv; [exact H|apply script_init_inv].
  - congruence.
Qed.
