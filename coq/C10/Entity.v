(** RateLimitedEntity over ANY policy (arbitrary [pacq]/[ptua], any queue capacity):
    conservation and exactly-once; arrival order is refuted (known finding
    C10-entity-arrival-overtakes-queue) with the partial theorem that holds. *)
From HS Require Import Base.Prelude C10.Model C10.QFacts.
From Coq Require Import QArith Permutation.
Local Open Scope Z_scope.

(** strictly increasing above [lo] *)
Fixpoint incr (lo : Z) (l : list Z) : Prop :=
  match l with [] => True | x :: r => lo < x /\ incr x r end.
Definition hi (lo : Z) (l : list Z) : Z := last l lo.

Lemma last_cons (x : Z) a d : last (x :: a) d = last a x.
Proof.
  revert x d; induction a as [|y a IH]; intros x d; [reflexivity|].
  change (last (x :: y :: a) d) with (last (y :: a) d). rewrite (IH y d), (IH y x). reflexivity.
Qed.
Lemma incr_app lo a b : incr lo (a ++ b) <-> incr lo a /\ incr (hi lo a) b.
Proof.
  revert lo; induction a as [|x a IH]; intros lo; [cbn; tauto|].
  cbn [app incr]. rewrite IH. unfold hi. rewrite last_cons. tauto.
Qed.
Lemma hi_app lo a x : hi lo (a ++ [x]) = x.
Proof. unfold hi. apply last_last. Qed.
Lemma incr_weaken lo lo' l : lo' <= lo -> incr lo l -> incr lo' l.
Proof. destruct l; cbn; auto. intros ? [? ?]; split; [lia|auto]. Qed.
Lemma incr_hi lo l : incr lo l -> lo <= hi lo l.
Proof.
  revert lo; induction l as [|x r IH]; intros lo; [unfold hi; cbn; lia|].
  intros [H1 H2]. specialize (IH _ H2). unfold hi in *. rewrite last_cons. lia.
Qed.

Lemma NoDup_app_l {A} (a b : list A) : NoDup (a ++ b) -> NoDup a.
Proof.
  induction a as [|x a IH]; cbn; intros H; [constructor|]. inversion H; subst. constructor; auto.
  intros C. apply H2. apply in_or_app. auto.
Qed.

Section Ent.
  Variable PS : Type.
  Variable pacq : PS -> Z -> PS * bool.
  Variable ptua : PS -> Z -> PS * Z.
  Variable cap : Z.
  Notation ent := (ent PS).
  Notation step := (ent_step PS pacq ptua cap).
  Notation run := (ent_run PS pacq ptua cap).
  Notation ensure := (ensure_poll PS ptua).

  Definition ids_of (i : ein) : list Z := match i with EReq id _ => [id] | EPoll _ => [] end.

  Lemma ensure_facts (e : ent) now :
    let '(e1, o) := ensure e now in
    e_queue e1 = e_queue e /\ e_recv e1 = e_recv e /\ e_fwd e1 = e_fwd e /\ e_queued e1 = e_queued e /\
    e_drop e1 = e_drop e /\ fwd_ids o = [].
  Proof.
    unfold ensure_poll. destruct (e_poll e); [cbn; auto 10|]. destruct (ptua (e_pol e) now). cbn; auto 10.
  Qed.

  (** What one [handle_event] does to the request ids and the counters. *)
  Lemma step_facts (e : ent) i :
    let '(e1, o, d) := step e i in
    Permutation (e_queue e ++ ids_of i) (fwd_ids o ++ e_queue e1 ++ d) /\
    e_recv e1 = e_recv e + Z.of_nat (length (ids_of i)) /\
    e_fwd e1 = e_fwd e + Z.of_nat (length (fwd_ids o)) /\
    e_drop e1 = e_drop e + Z.of_nat (length d) /\
    (* shape, for the order theorems *)
    ((exists id, ids_of i = [id] /\ fwd_ids o = [id] /\ e_queue e1 = e_queue e /\ d = [] /\
                 snd (pacq (e_pol e) (ein_time i)) = true) \/
     (fwd_ids o = [] /\ e_queue e1 = e_queue e ++ ids_of i /\ d = []) \/
     (fwd_ids o = [] /\ e_queue e1 = e_queue e /\ d = ids_of i) \/
     (exists q, ids_of i = [] /\ e_queue e = q :: e_queue e1 /\ fwd_ids o = [q] /\ d = [])).
  Proof.
    destruct i as [id now|now]; cbn [ent_step ids_of ein_time].
    - unfold ent_request. destruct (pacq (e_pol e) now) as [ps ok] eqn:EA. destruct ok.
      + cbn [e_queue e_recv e_fwd e_drop fwd_ids flat_map app length snd]. rewrite app_nil_r.
        split; [apply Permutation_sym, Permutation_cons_append|]. repeat split; try lia.
        left. exists id. auto 10.
      + destruct (Z.of_nat (length (e_queue e)) <? cap).
        * match goal with |- context [ensure ?E now] => pose proof (ensure_facts E now) as EF; destruct (ensure E now) as [e2 o2] end.
          cbn [e_queue e_recv e_fwd e_drop e_queued] in EF. destruct EF as (Q & R & F & _ & D & O).
          rewrite Q, R, F, D, O. cbn [app length]. rewrite app_nil_r. split; [apply Permutation_refl|].
          repeat split; try lia. right; left. auto.
        * cbn [e_queue e_recv e_fwd e_drop fwd_ids flat_map app length]. split; [apply Permutation_refl|].
          repeat split; try lia. right; right; left. auto.
    - unfold ent_poll. rewrite app_nil_r. destruct (e_queue e) as [|q rest] eqn:EQ.
      + cbn [e_queue e_recv e_fwd e_drop fwd_ids flat_map app length]. split; [constructor|]. repeat split; try lia.
        right; left. auto.
      + destruct (pacq (e_pol e) now) as [ps ok]. destruct ok.
        * destruct rest as [|q2 rest2].
          -- cbn [e_queue e_recv e_fwd e_drop fwd_ids flat_map app length]. split; [apply Permutation_refl|].
             repeat split; try lia. right; right; right. exists q. auto.
          -- match goal with |- context [ensure ?E now] => pose proof (ensure_facts E now) as EF; destruct (ensure E now) as [e2 o2] end.
             cbn [e_queue e_recv e_fwd e_drop e_queued] in EF. destruct EF as (Q & R & F & _ & D & O).
             change (fwd_ids (OFwd q now :: o2)) with (q :: fwd_ids o2). rewrite O, Q, R, F, D. cbn [app length]. rewrite app_nil_r.
             split; [apply Permutation_refl|]. repeat split; try lia. right; right; right. exists q. auto.
        * match goal with |- context [ensure ?E now] => pose proof (ensure_facts E now) as EF; destruct (ensure E now) as [e2 o2] end.
          cbn [e_queue e_recv e_fwd e_drop e_queued] in EF. destruct EF as (Q & R & F & _ & D & O).
          rewrite O, Q, R, F, D. cbn [app length]. rewrite app_nil_r. split; [apply Permutation_refl|].
          repeat split; try lia. right; left. auto.
  Qed.

  Lemma req_ids_cons i r : req_ids (i :: r) = ids_of i ++ req_ids r.
  Proof. destruct i; reflexivity. Qed.
  Lemma fwd_ids_app a b : fwd_ids (a ++ b) = fwd_ids a ++ fwd_ids b.
  Proof. unfold fwd_ids. apply flat_map_app. Qed.

  (** ** every request is forwarded, still queued, or dropped — exactly once *)
  Theorem ent_conservation ins : forall e : ent,
    let '(e', outs, dr) := run e ins in
    Permutation (e_queue e ++ req_ids ins) (fwd_ids outs ++ e_queue e' ++ dr) /\
    e_recv e' = e_recv e + Z.of_nat (length (req_ids ins)) /\
    e_fwd e' = e_fwd e + Z.of_nat (length (fwd_ids outs)) /\
    e_drop e' = e_drop e + Z.of_nat (length dr).
  Proof.
    induction ins as [|i r IH]; intros e; cbn [ent_run].
    - cbn [req_ids flat_map fwd_ids app length]. rewrite !app_nil_r. split; [apply Permutation_refl|]. lia.
    - pose proof (step_facts e i) as SF. destruct (step e i) as [[e1 o1] d1].
      specialize (IH e1). destruct (run e1 r) as [[e2 o2] d2].
      destruct SF as (P1 & R1 & F1 & D1 & _). destruct IH as (P2 & R2 & F2 & D2).
      rewrite req_ids_cons, fwd_ids_app, !app_length, !Nat2Z.inj_add. split; [|lia].
      rewrite app_assoc. eapply Permutation_trans; [apply Permutation_app_tail; exact P1|].
      (* (F1 ++ Q1 ++ d1) ++ rest  ~  (F1 ++ F2) ++ Q2 ++ d1 ++ d2 *)
      rewrite <- !app_assoc. apply Permutation_app_head.
      eapply Permutation_trans; [apply Permutation_app_head, Permutation_app_comm|].
      rewrite app_assoc. eapply Permutation_trans; [apply Permutation_app_tail; exact P2|].
      rewrite <- !app_assoc. apply Permutation_app_head, Permutation_app_head, Permutation_app_comm.
  Qed.

  Corollary ent_exactly_once ps ins :
    let '(e', outs, dr) := run (ent_init PS ps) ins in
    Permutation (req_ids ins) (fwd_ids outs ++ e_queue e' ++ dr) /\
    e_recv e' = e_fwd e' + Z.of_nat (length (e_queue e')) + e_drop e' /\
    (NoDup (req_ids ins) -> NoDup (fwd_ids outs)).
  Proof.
    pose proof (ent_conservation ins (ent_init PS ps)) as C. destruct (run (ent_init PS ps) ins) as [[e' outs] dr].
    cbn [ent_init e_queue e_recv e_fwd e_drop app] in C. destruct C as (P & R & F & D).
    split; [exact P|]. split.
    - apply Permutation_length in P. rewrite !app_length in P. lia.
    - intros ND. eapply Permutation_NoDup in ND; [|exact P]. apply NoDup_app_l in ND. exact ND.
  Qed.

  (** ** arrival order, PARTIAL: it holds for every run in which no request is admitted on
      arrival while earlier requests are still queued. *)
  Fixpoint no_overtake (e : ent) (ins : list ein) : Prop :=
    match ins with
    | [] => True
    | i :: r =>
        (match i with
         | EReq _ now => snd (pacq (e_pol e) now) = true -> e_queue e = []
         | EPoll _ => True
         end) /\ no_overtake (fst (fst (step e i))) r
    end.

  Lemma fifo_inv ins : forall (e : ent) lo F,
    incr lo (F ++ e_queue e) -> incr (hi lo (F ++ e_queue e)) (req_ids ins) -> no_overtake e ins ->
    incr lo (F ++ fwd_ids (snd (fst (run e ins)))).
  Proof.
    induction ins as [|i r IH]; intros e lo F HI HA HN; cbn [ent_run].
    - cbn. rewrite app_nil_r. apply incr_app in HI. tauto.
    - destruct HN as [HN1 HN2]. pose proof (step_facts e i) as SF. destruct (step e i) as [[e1 o1] d1] eqn:ES.
      cbn [fst] in HN2. destruct SF as (_ & _ & _ & _ & SH). rewrite req_ids_cons in HA.
      specialize (IH e1 lo (F ++ fwd_ids o1)).
      destruct (run e1 r) as [[e2 o2] d2]. cbn [fst snd] in *. rewrite fwd_ids_app, app_assoc.
      apply incr_app in HA. destruct HA as [HA1 HA2].
      destruct SH as [(id & EI & EF & EQ & _ & OK)|[(EF & EQ & _)|[(EF & EQ & ED)|(q & EI & EQ & EF & _)]]].
      + (* admitted on arrival: the queue was empty *)
        destruct i as [id' now|now]; [|discriminate]. cbn [ein_time] in OK. specialize (HN1 OK).
        rewrite EI in *. rewrite EF, EQ, HN1 in *. rewrite app_nil_r in *.
        apply IH; auto.
        * apply incr_app. split; [auto|exact HA1].
        * rewrite hi_app. cbn [incr hi last] in HA2. unfold hi in HA2. exact HA2.
      + rewrite EF, EQ in *. rewrite ?app_nil_r in *. apply IH; auto.
        * rewrite app_assoc. apply incr_app. split; [auto|exact HA1].
        * rewrite app_assoc. destruct (ids_of i) as [|x [|]] eqn:EI; [rewrite app_nil_r; exact HA2| |destruct i; discriminate].
          rewrite hi_app. cbn [hi last] in HA2. exact HA2.
      + rewrite EF, EQ in *. rewrite ?app_nil_r in *. apply IH; auto.
        eapply incr_weaken; [|exact HA2]. apply incr_hi. exact HA1.
      + rewrite EI, EF, EQ in *. cbn [incr hi last] in HA2.
        assert (EA : (F ++ [q]) ++ e_queue e1 = F ++ q :: e_queue e1) by (rewrite <- app_assoc; reflexivity).
        rewrite EA in IH. apply IH; auto.
  Qed.

  Theorem ent_fifo_partial ps ins : incr (-1) (req_ids ins) -> no_overtake (ent_init PS ps) ins ->
    incr (-1) (fwd_ids (snd (fst (run (ent_init PS ps) ins)))).
  Proof.
    intros HA HN. apply (fifo_inv ins (ent_init PS ps) (-1) []); auto. cbn. exact I.
  Qed.
End Ent.

(** ** Inductor: the same conservation / exactly-once statement (any EWMA weights, any tau). *)
Section Ind.
  Variable NO : numops.
  Variable dflt : Model.num NO.
  Variable cap : Z.
  Notation istep := (ind_step NO dflt cap).
  Notation irun := (ind_run NO dflt cap).

  Definition iids_of (i : iin NO) : list Z := match i with IReq id _ _ => [id] | IPoll _ => [] end.

  Lemma ind_step_facts (e : ent (ips NO)) i :
    let '(e1, o, d) := istep e i in
    Permutation (e_queue e ++ iids_of i) (fwd_ids o ++ e_queue e1 ++ d) /\
    e_recv e1 = e_recv e + Z.of_nat (length (iids_of i)) /\
    e_fwd e1 = e_fwd e + Z.of_nat (length (fwd_ids o)) /\
    e_drop e1 = e_drop e + Z.of_nat (length d).
  Proof.
    destruct i as [id now a|now]; cbn [ind_step iids_of].
    - pose proof (step_facts (ips NO) (ind_acq NO) (ind_tua NO dflt) cap (set_pol NO e (ind_update NO (e_pol e) now a)) (EReq id now)) as SF.
      destruct (ent_step _ _ _ _ _ _) as [[e1 o] d]. cbn [set_pol e_queue e_recv e_fwd e_drop ids_of] in SF. tauto.
    - pose proof (step_facts (ips NO) (ind_acq NO) (ind_tua NO dflt) cap e (EPoll now)) as SF.
      destruct (ent_step _ _ _ _ _ _) as [[e1 o] d]. cbn [ids_of] in SF. tauto.
  Qed.

  Theorem ind_conservation ins : forall e : ent (ips NO),
    let '(e', outs, dr) := irun e ins in
    Permutation (e_queue e ++ ireq_ids NO ins) (fwd_ids outs ++ e_queue e' ++ dr) /\
    e_recv e' = e_recv e + Z.of_nat (length (ireq_ids NO ins)) /\
    e_fwd e' = e_fwd e + Z.of_nat (length (fwd_ids outs)) /\
    e_drop e' = e_drop e + Z.of_nat (length dr).
  Proof.
    induction ins as [|i r IH]; intros e; cbn [ind_run].
    - cbn [ireq_ids flat_map fwd_ids app length]. rewrite !app_nil_r. split; [apply Permutation_refl|]. lia.
    - pose proof (ind_step_facts e i) as SF. destruct (istep e i) as [[e1 o1] d1].
      specialize (IH e1). destruct (irun e1 r) as [[e2 o2] d2].
      destruct SF as (P1 & R1 & F1 & D1). destruct IH as (P2 & R2 & F2 & D2).
      assert (EI : ireq_ids NO (i :: r) = iids_of i ++ ireq_ids NO r) by (destruct i; reflexivity).
      rewrite EI, fwd_ids_app, !app_length, !Nat2Z.inj_add. split; [|lia].
      rewrite app_assoc. eapply Permutation_trans; [apply Permutation_app_tail; exact P1|].
      rewrite <- !app_assoc. apply Permutation_app_head.
      eapply Permutation_trans; [apply Permutation_app_head, Permutation_app_comm|].
      rewrite app_assoc. eapply Permutation_trans; [apply Permutation_app_tail; exact P2|].
      rewrite <- !app_assoc. apply Permutation_app_head, Permutation_app_head, Permutation_app_comm.
  Qed.
End Ind.

(** ** NullRateLimiter forwards every request once, at its own time, in order. *)
Theorem null_forwards_all (reqs : list (Z * Z)) :
  fwd_ids (flat_map (fun r => null_step (fst r) (snd r)) reqs) = map fst reqs.
Proof.
  induction reqs as [|[i t] r IH]; [reflexivity|].
  cbn [flat_map map fst snd null_step app]. change (fwd_ids (OFwd i t :: ?x)) with (i :: fwd_ids x).
  unfold fwd_ids in *. cbn [flat_map app]. rewrite IH. reflexivity.
Qed.

(** ** arrival order, full statement: REFUTED on the faithful model.  Token bucket with
    capacity 1, 1 token/s; requests 0 and 1 arrive at t = 0 (1 is queued, poll at 1 s);
    request 2 arrives at exactly 1 s and is delivered before the poll of the same instant
    (it was created earlier): it takes the token and overtakes request 1. *)
Definition fifo_statement : Prop :=
  forall (c : pol_cfg Qops) (s0 : pol_st Qops) (cap : Z) (ins : list ein),
    incr (-1) (req_ids ins) ->
    sched_ok _ (pol_acq Qops c) (pol_tua Qops c) cap (ent_init _ s0) 0 None ins = true ->
    incr (-1) (fwd_ids (snd (fst (ent_run _ (pol_acq Qops c) (pol_tua Qops c) cap (ent_init _ s0) ins)))).

Definition fifo_witness : list ein := [EReq 0 0; EReq 1 0; EReq 2 1000000000; EPoll 1000000000; EPoll 2000000000].

Example fifo_witness_forwards :
  fwd_ids (snd (fst (ent_run _ (pol_acq Qops (CTb (Build_tbp Qops 1%Q 1%Q))) (pol_tua Qops (CTb (Build_tbp Qops 1%Q 1%Q))) 10
                        (ent_init _ (STb (Build_tbs Qops 1%Q None))) fifo_witness))) = [0; 2; 1].
Proof. vm_compute. reflexivity. Qed.

Theorem ent_fifo_refuted : ~ fifo_statement.
Proof.
  intros H.
  specialize (H (CTb (Build_tbp Qops 1%Q 1%Q)) (STb (Build_tbs Qops 1%Q None)) 10 fifo_witness).
  assert (A : incr (-1) (req_ids fifo_witness)) by (cbn; lia).
  assert (B : sched_ok _ (pol_acq Qops (CTb (Build_tbp Qops 1%Q 1%Q))) (pol_tua Qops (CTb (Build_tbp Qops 1%Q 1%Q))) 10
                (ent_init _ (STb (Build_tbs Qops 1%Q None))) 0 None fifo_witness = true) by (vm_compute; reflexivity).
  specialize (H A B). rewrite fifo_witness_forwards in H. cbn in H. lia.
Qed.


(** [no_overtake] is satisfiable by a run that queues and drains (so the partial theorem is not
    vacuous): same bucket, request 2 arrives after the poll instead of before it. *)
Example fifo_partial_example :
  let ins := [EReq 0 0; EReq 1 0; EPoll 1000000000; EReq 2 1000000000; EPoll 2000000000] in
  let acq := pol_acq Qops (CTb (Build_tbp Qops 1%Q 1%Q)) in
  let tua := pol_tua Qops (CTb (Build_tbp Qops 1%Q 1%Q)) in
  let e0 := ent_init _ (STb (Build_tbs Qops 1%Q None)) in
  no_overtake _ acq tua 10 e0 ins /\
  fwd_ids (snd (fst (ent_run _ acq tua 10 e0 ins))) = [0; 1; 2].
Proof. vm_compute. repeat split; congruence. Qed.
