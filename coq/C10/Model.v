(** C10 — executable models of happysimulator/components/rate_limiter/policy.py
    (TokenBucket, LeakyBucket, SlidingWindow, FixedWindow, Adaptive policies).

    No proofs here.  Times are integer nanoseconds ([Z], [Instant.nanoseconds]).
    The policies compute with Python floats; the control flow is written ONCE,
    generically over a record [numops] of the arithmetic the code uses, and is
    instantiated twice:

    - [Qops]: exact rationals.  The theorems are about this instance.  On the
      dyadic grid (times multiples of 2^-9 s = 1953125 ns, parameters dyadic,
      rates powers of two) every binary64 operation the policies perform is
      exact, so this instance and the implementation agree bit for bit there.
    - [Fops]: IEEE binary64 through Coq's primitive floats, operation for
      operation what CPython does ([float(ns) / 1e9], [int(x * 1e9)], [+ - * /],
      comparisons).  This instance is compared with the implementation on
      arbitrary (off-grid) inputs.

    [secs d]  = [Duration(d).to_seconds()]            = [float(d) / 1_000_000_000]
    [nanos x] = [Duration.from_seconds(x).nanoseconds] = [int(x * 1_000_000_000)]
    (also what [Instant +/- float] adds/subtracts). *)
From HS Require Import Base.Prelude.
From Coq Require Import QArith Qround Floats.
Local Open Scope Z_scope.

Record numops := {
  num : Type;
  nadd : num -> num -> num;
  nsub : num -> num -> num;
  nmul : num -> num -> num;
  ndiv : num -> num -> num;
  nle : num -> num -> bool;      (* a <= b *)
  nlt : num -> num -> bool;      (* a <  b *)
  neqb : num -> num -> bool;     (* only used to compare with observations *)
  n0 : num;
  n1 : num;
  secs : Z -> num;
  nanos : num -> Z;
}.

(** Operations of a policy sequence (direct drive) and what is observed. *)
Inductive pop :=
| Acq (now : Z)          (* try_acquire(now) -> 1/0 *)
| Tua (now : Z).         (* time_until_available(now) -> ns *)

(** Operations on an AdaptivePolicy: the two calls plus the AIMD feedback. *)
Inductive aop :=
| ACall (o : pop)
| RecS (now : Z)         (* record_success *)
| RecF (now : Z).        (* record_failure *)

Definition b2z (b : bool) : Z := if b then 1 else 0.

Definition time_of (o : pop) : Z := match o with Acq t | Tua t => t end.
Definition atime_of (o : aop) : Z := match o with ACall o => time_of o | RecS t | RecF t => t end.
(** 1 when the operation is an acquire that was granted (result 1). *)
Definition granted (o : pop) (r : Z) : Z := match o with Acq _ => r | _ => 0 end.
Definition agranted (o : aop) (r : Z) : Z := match o with ACall o => granted o r | _ => 0 end.

(** Run a sequence; returns the final state and the number of granted acquires. *)
Fixpoint run_count {S Op} (adm : Op -> Z -> Z) (step : S -> Op -> S * Z) (s : S) (ops : list Op) : S * Z :=
  match ops with
  | [] => (s, 0)
  | o :: r => let '(s1, x) := step s o in
              let '(s2, n) := run_count adm step s1 r in (s2, adm o x + n)
  end.

(** Times of the granted acquires of a run, oldest first. *)
Fixpoint run_times {S} (step : S -> pop -> S * Z) (s : S) (ops : list pop) : list Z :=
  match ops with
  | [] => []
  | o :: r => let '(s1, x) := step s o in
              (if granted o x =? 1 then [time_of o] else []) ++ run_times step s1 r
  end.

Section Generic.
  Variable O : numops.
  Notation N := (num O).
  Notation "a +. b" := (nadd O a b) (at level 50, left associativity).
  Notation "a -. b" := (nsub O a b) (at level 50, left associativity).
  Notation "a *. b" := (nmul O a b) (at level 40, left associativity).
  Notation "a /. b" := (ndiv O a b) (at level 40, left associativity).
  Notation "a <=. b" := (nle O a b) (at level 70).
  Notation "a <. b" := (nlt O a b) (at level 70).

  (** Python [min(a, b)] / [max(a, b)]: the first argument unless the second is
      strictly smaller / greater. *)
  Definition nmin (a b : N) : N := if b <. a then b else a.
  Definition nmax (a b : N) : N := if a <. b then b else a.

  (** The "1 ns progress guard": [if wait == Duration.ZERO: return Duration(1)]. *)
  Definition guard (w : Z) : Z := if w =? 0 then 1 else w.

  (* ---------------------------------------------------------------- *)
  (** ** TokenBucketPolicy (policy.py:65-127) *)
  Record tbp := { tb_cap : N; tb_rate : N }.
  Record tbs := { tb_tokens : N; tb_last : option Z }.

  Definition tb_refill (p : tbp) (s : tbs) (now : Z) : tbs :=
    match tb_last s with
    | None => {| tb_tokens := tb_tokens s; tb_last := Some now |}
    | Some l =>
        let el := secs O (now - l) in
        if el <=. n0 O then s
        else {| tb_tokens := nmin (tb_cap p) (tb_tokens s +. el *. tb_rate p);
                tb_last := Some now |}
    end.

  Definition tb_acquire (p : tbp) (s : tbs) (now : Z) : tbs * bool :=
    let s := tb_refill p s now in
    if n1 O <=. tb_tokens s
    then ({| tb_tokens := tb_tokens s -. n1 O; tb_last := tb_last s |}, true)
    else (s, false).

  Definition tb_tua (p : tbp) (s : tbs) (now : Z) : tbs * Z :=
    let s := tb_refill p s now in
    if n1 O <=. tb_tokens s then (s, 0)
    else (s, guard (nanos O ((n1 O -. tb_tokens s) /. tb_rate p))).

  Definition tb_step (p : tbp) (s : tbs) (o : pop) : tbs * Z :=
    match o with
    | Acq t => let '(s', b) := tb_acquire p s t in (s', b2z b)
    | Tua t => tb_tua p s t
    end.

  (* ---------------------------------------------------------------- *)
  (** ** LeakyBucketPolicy (policy.py:130-170).  [lk_interval] is
      [1.0 / leak_rate], computed once by the constructor. *)
  Definition lk_interval (rate : N) : N := n1 O /. rate.

  Definition lk_acquire (iv : N) (s : option Z) (now : Z) : option Z * bool :=
    match s with
    | None => (Some now, true)
    | Some l => if iv <=. secs O (now - l) then (Some now, true) else (s, false)
    end.

  Definition lk_tua (iv : N) (s : option Z) (now : Z) : Z :=
    match s with
    | None => 0
    | Some l =>
        let rem := iv -. secs O (now - l) in
        if rem <=. n0 O then 0 else guard (nanos O rem)
    end.

  Definition lk_step (iv : N) (s : option Z) (o : pop) : option Z * Z :=
    match o with
    | Acq t => let '(s', b) := lk_acquire iv s t in (s', b2z b)
    | Tua t => (s, lk_tua iv s t)
    end.

  (* ---------------------------------------------------------------- *)
  (** ** SlidingWindowPolicy (policy.py:173-222).  State: the request log,
      oldest first.  [wn] = [nanos window_size] is what [Instant -/+ float]
      subtracts/adds. *)
  Fixpoint sw_prune (cutoff : Z) (log : list Z) : list Z :=
    match log with
    | t :: r => if t <? cutoff then sw_prune cutoff r else log
    | [] => []
    end.

  Definition sw_acquire (wn n : Z) (log : list Z) (now : Z) : list Z * bool :=
    let log := sw_prune (now - wn) log in
    if Z.of_nat (length log) <? n then (log ++ [now], true) else (log, false).

  Definition sw_tua (wn n : Z) (log : list Z) (now : Z) : list Z * Z :=
    let log := sw_prune (now - wn) log in
    if Z.of_nat (length log) <? n then (log, 0)
    else match log with
         | [] => (log, -1)                      (* IndexError: max_requests <= 0; not generated *)
         | oldest :: _ => (log, guard (nanos O (secs O (oldest + wn - now))))
         end.

  Definition sw_step (wn n : Z) (log : list Z) (o : pop) : list Z * Z :=
    match o with
    | Acq t => let '(s', b) := sw_acquire wn n log t in (s', b2z b)
    | Tua t => sw_tua wn n log t
    end.

  (* ---------------------------------------------------------------- *)
  (** ** FixedWindowPolicy (policy.py:225-289), with the window start computed
      in integer nanoseconds (repaired behaviour, see known_findings/C10.json
      C10-fixed-window-float-floor).  [wn] = [nanos window_size]. *)
  Record fws := { fw_start : option Z; fw_count : Z }.

  Definition fw_window_start (wn now : Z) : Z := (now / Z.max 1 wn) * Z.max 1 wn.

  Definition fw_reset (wn : Z) (s : fws) (now : Z) : fws :=
    let ws := fw_window_start wn now in
    match fw_start s with
    | None => {| fw_start := Some ws; fw_count := 0 |}
    | Some c => if c <? ws then {| fw_start := Some ws; fw_count := 0 |} else s
    end.

  Definition fw_acquire (wn n : Z) (s : fws) (now : Z) : fws * bool :=
    let s := fw_reset wn s now in
    if fw_count s <? n then ({| fw_start := fw_start s; fw_count := fw_count s + 1 |}, true)
    else (s, false).

  Definition fw_tua (wn n : Z) (s : fws) (now : Z) : fws * Z :=
    let s := fw_reset wn s now in
    if fw_count s <? n then (s, 0)
    else match fw_start s with
         | None => (s, 0)
         | Some c =>
             let rem := secs O (c + wn - now) in
             if rem <=. n0 O then (s, 0) else (s, guard (nanos O rem))
         end.

  Definition fw_step (wn n : Z) (s : fws) (o : pop) : fws * Z :=
    match o with
    | Acq t => let '(s', b) := fw_acquire wn n s t in (s', b2z b)
    | Tua t => fw_tua wn n s t
    end.

  (* ---------------------------------------------------------------- *)
  (** ** AdaptivePolicy (policy.py:310-442): token bucket whose rate moves by
      AIMD and whose cap is [rate * window]. *)
  Record adp := { ad_min : N; ad_max : N; ad_inc : N; ad_dec : N; ad_win : N }.
  Record ads := { ad_rate : N; ad_tokens : N; ad_last : option Z }.

  Definition ad_refill (p : adp) (s : ads) (now : Z) : ads :=
    match ad_last s with
    | None => {| ad_rate := ad_rate s; ad_tokens := ad_tokens s; ad_last := Some now |}
    | Some l =>
        let el := secs O (now - l) in
        if el <=. n0 O then s
        else {| ad_rate := ad_rate s;
                ad_tokens := nmin (ad_rate s *. ad_win p) (ad_tokens s +. el *. ad_rate s);
                ad_last := Some now |}
    end.

  Definition ad_acquire (p : adp) (s : ads) (now : Z) : ads * bool :=
    let s := ad_refill p s now in
    if n1 O <=. ad_tokens s
    then ({| ad_rate := ad_rate s; ad_tokens := ad_tokens s -. n1 O; ad_last := ad_last s |}, true)
    else (s, false).

  Definition ad_tua (p : adp) (s : ads) (now : Z) : ads * Z :=
    let s := ad_refill p s now in
    if n1 O <=. ad_tokens s then (s, 0)
    else (s, guard (nanos O ((n1 O -. ad_tokens s) /. ad_rate s))).

  Definition ad_success (p : adp) (s : ads) : ads :=
    {| ad_rate := nmin (ad_max p) (ad_rate s +. ad_inc p); ad_tokens := ad_tokens s; ad_last := ad_last s |}.
  Definition ad_failure (p : adp) (s : ads) : ads :=
    {| ad_rate := nmax (ad_min p) (ad_rate s *. ad_dec p); ad_tokens := ad_tokens s; ad_last := ad_last s |}.

  Definition ad_step (p : adp) (s : ads) (o : aop) : ads * Z :=
    match o with
    | ACall (Acq t) => let '(s', b) := ad_acquire p s t in (s', b2z b)
    | ACall (Tua t) => ad_tua p s t
    | RecS _ => (ad_success p s, 0)
    | RecF _ => (ad_failure p s, 0)
    end.

  (* ---------------------------------------------------------------- *)
  (** ** Comparison with the implementation, after every operation. *)
  Definition oz_eqb := option_eqb Z.eqb.

  Fixpoint ok_run {S Op Ob} (step : S -> Op -> S * Z) (same : S -> Ob -> bool)
           (s : S) (tr : list (Op * (Z * Ob))) : bool :=
    match tr with
    | [] => true
    | (o, (r, ob)) :: rest =>
        let '(s', r') := step s o in
        (r' =? r) && same s' ob && ok_run step same s' rest
    end.

  (** token bucket: ((capacity, rate, initial tokens), trace); observed state = (tokens, last) *)
  Definition ok_tb (c : (N * N * N) * list (pop * (Z * (N * option Z)))) : bool :=
    let '((cap, rate, init), tr) := c in
    ok_run (tb_step {| tb_cap := cap; tb_rate := rate |})
           (fun s ob => neqb O (tb_tokens s) (fst ob) && oz_eqb (tb_last s) (snd ob))
           {| tb_tokens := init; tb_last := None |} tr.

  (** leaky bucket: (rate, trace); observed state = last leak time *)
  Definition ok_lk (c : N * list (pop * (Z * option Z))) : bool :=
    let '(rate, tr) := c in
    ok_run (lk_step (lk_interval rate)) oz_eqb None tr.

  (** sliding window: ((window, max_requests), trace); observed state = log *)
  Definition ok_sw (c : (N * Z) * list (pop * (Z * list Z))) : bool :=
    let '((w, n), tr) := c in
    ok_run (sw_step (nanos O w) n) (list_eqb Z.eqb) [] tr.

  (** fixed window: ((window, requests_per_window), trace); observed = (start, count) *)
  Definition ok_fw (c : (N * Z) * list (pop * (Z * (option Z * Z)))) : bool :=
    let '((w, n), tr) := c in
    ok_run (fw_step (nanos O w) n)
           (fun s ob => oz_eqb (fw_start s) (fst ob) && (fw_count s =? snd ob))
           {| fw_start := None; fw_count := 0 |} tr.

  (** adaptive: ((min, max, inc, dec, window, initial rate), trace); observed = (rate, tokens, last) *)
  Definition ok_ad (c : (N * N * N * N * N * N) * list (aop * (Z * (N * N * option Z)))) : bool :=
    let '((mn, mx, inc, dec, win, r0), tr) := c in
    ok_run (ad_step {| ad_min := mn; ad_max := mx; ad_inc := inc; ad_dec := dec; ad_win := win |})
           (fun s ob => let '(r, tk, l) := ob in
                        neqb O (ad_rate s) r && neqb O (ad_tokens s) tk && oz_eqb (ad_last s) l)
           {| ad_rate := r0; ad_tokens := r0 *. win; ad_last := None |} tr.
End Generic.

Arguments tb_cap {O}. Arguments tb_rate {O}. Arguments tb_tokens {O}. Arguments tb_last {O}.
Arguments fw_start : clear implicits. Arguments fw_count : clear implicits.
Arguments ad_min {O}. Arguments ad_max {O}. Arguments ad_inc {O}. Arguments ad_dec {O}. Arguments ad_win {O}.
Arguments ad_rate {O}. Arguments ad_tokens {O}. Arguments ad_last {O}.

(* ------------------------------------------------------------------ *)
(** * RateLimitedEntity (rate_limited_entity.py) as a step machine over ANY policy.

    One step per [handle_event] call.  Requests carry an id (their arrival index);
    the FIFO buffer is a list of ids, oldest first.  Outputs: the forwarded request
    (event at [now] to the downstream) and the self-scheduled daemon poll. *)
Inductive ein := EReq (id now : Z) | EPoll (now : Z).
Inductive eout := OFwd (id now : Z) | OPoll (at_ : Z).

Definition ein_time (i : ein) : Z := match i with EReq _ t | EPoll t => t end.

Section Entity.
  Variable PS : Type.
  Variable pacq : PS -> Z -> PS * bool.      (* policy.try_acquire *)
  Variable ptua : PS -> Z -> PS * Z.         (* policy.time_until_available *)
  Variable cap : Z.                          (* queue_capacity *)

  Record ent := {
    e_pol : PS; e_queue : list Z; e_poll : bool;
    e_recv : Z; e_fwd : Z; e_queued : Z; e_drop : Z;
  }.

  (** [_ensure_poll_scheduled] *)
  Definition ensure_poll (e : ent) (now : Z) : ent * list eout :=
    if e_poll e then (e, [])
    else let '(ps, w) := ptua (e_pol e) now in
         ({| e_pol := ps; e_queue := e_queue e; e_poll := true;
             e_recv := e_recv e; e_fwd := e_fwd e; e_queued := e_queued e; e_drop := e_drop e |},
          [OPoll (now + w)]).

  (** [_handle_request]; third component: ids dropped by this call (ghost, for the theorems) *)
  Definition ent_request (e : ent) (id now : Z) : ent * list eout * list Z :=
    let '(ps, ok) := pacq (e_pol e) now in
    if ok then
      ({| e_pol := ps; e_queue := e_queue e; e_poll := e_poll e;
          e_recv := e_recv e + 1; e_fwd := e_fwd e + 1; e_queued := e_queued e; e_drop := e_drop e |},
       [OFwd id now], [])
    else if Z.of_nat (length (e_queue e)) <? cap then
      let e1 := {| e_pol := ps; e_queue := e_queue e ++ [id]; e_poll := e_poll e;
                   e_recv := e_recv e + 1; e_fwd := e_fwd e; e_queued := e_queued e + 1; e_drop := e_drop e |} in
      let '(e2, outs) := ensure_poll e1 now in (e2, outs, [])
    else
      ({| e_pol := ps; e_queue := e_queue e; e_poll := e_poll e;
          e_recv := e_recv e + 1; e_fwd := e_fwd e; e_queued := e_queued e; e_drop := e_drop e + 1 |},
       [], [id]).

  (** [_handle_poll] *)
  Definition ent_poll (e : ent) (now : Z) : ent * list eout * list Z :=
    let e0 := {| e_pol := e_pol e; e_queue := e_queue e; e_poll := false;
                 e_recv := e_recv e; e_fwd := e_fwd e; e_queued := e_queued e; e_drop := e_drop e |} in
    match e_queue e with
    | [] => (e0, [], [])
    | qid :: rest =>
        let '(ps, ok) := pacq (e_pol e) now in
        if ok then
          let e1 := {| e_pol := ps; e_queue := rest; e_poll := false;
                       e_recv := e_recv e; e_fwd := e_fwd e + 1; e_queued := e_queued e; e_drop := e_drop e |} in
          match rest with
          | [] => (e1, [OFwd qid now], [])
          | _ => let '(e2, outs) := ensure_poll e1 now in (e2, OFwd qid now :: outs, [])
          end
        else
          let e1 := {| e_pol := ps; e_queue := e_queue e; e_poll := false;
                       e_recv := e_recv e; e_fwd := e_fwd e; e_queued := e_queued e; e_drop := e_drop e |} in
          let '(e2, outs) := ensure_poll e1 now in (e2, outs, [])
    end.

  Definition ent_step (e : ent) (i : ein) : ent * list eout * list Z :=
    match i with EReq id now => ent_request e id now | EPoll now => ent_poll e now end.

  Definition ent_init (ps : PS) : ent :=
    {| e_pol := ps; e_queue := []; e_poll := false; e_recv := 0; e_fwd := 0; e_queued := 0; e_drop := 0 |}.

  (** Run: final state, all outputs in order, all dropped ids in order. *)
  Fixpoint ent_run (e : ent) (ins : list ein) : ent * list eout * list Z :=
    match ins with
    | [] => (e, [], [])
    | i :: r => let '(e1, o1, d1) := ent_step e i in
                let '(e2, o2, d2) := ent_run e1 r in (e2, o1 ++ o2, d1 ++ d2)
    end.

  Definition fwd_ids (outs : list eout) : list Z :=
    flat_map (fun o => match o with OFwd id _ => [id] | OPoll _ => [] end) outs.
  Definition req_ids (ins : list ein) : list Z :=
    flat_map (fun i => match i with EReq id _ => [id] | EPoll _ => [] end) ins.

  (** Schedules the engine can produce for this entity: times never decrease, a poll is
      delivered exactly at the time the entity asked for, and no request is delivered after
      the instant of a pending poll (at the same instant either order is possible: the
      engine breaks ties by event creation order).  [pend] = time of the pending poll. *)
  Definition pend_after (pend : option Z) (i : ein) (outs : list eout) : option Z :=
    let p0 := match i with EPoll _ => None | _ => pend end in
    fold_left (fun p o => match o with OPoll t => Some t | _ => p end) outs p0.

  Fixpoint sched_ok (e : ent) (last : Z) (pend : option Z) (ins : list ein) : bool :=
    match ins with
    | [] => true
    | i :: r =>
        let t := ein_time i in
        (last <=? t) &&
        match i, pend with
        | EPoll _, Some pt => t =? pt
        | EPoll _, None => false
        | EReq _ _, Some pt => t <=? pt
        | EReq _ _, None => true
        end &&
        let '(e1, o1, _) := ent_step e i in sched_ok e1 t (pend_after pend i o1) r
    end.
End Entity.

Arguments e_pol {PS}. Arguments e_queue {PS}. Arguments e_poll {PS}.
Arguments e_recv {PS}. Arguments e_fwd {PS}. Arguments e_queued {PS}. Arguments e_drop {PS}.

Definition eout_eqb (a b : eout) : bool :=
  match a, b with
  | OFwd i t, OFwd j u => (i =? j) && (t =? u)
  | OPoll t, OPoll u => t =? u
  | _, _ => false
  end.

(** The four self-contained policies as one type (for the entity correspondence). *)
Section PolSum.
  Variable O : numops.
  Inductive pol_cfg := CTb (p : tbp O) | CLk (iv : num O) | CSw (wn n : Z) | CFw (wn n : Z).
  Inductive pol_st := STb (s : tbs O) | SLk (s : option Z) | SSw (log : list Z) | SFw (s : fws).
  Inductive pol_obs := OTb (tokens : num O) (last : option Z) | OLk (last : option Z)
                     | OSw (log : list Z) | OFw (start : option Z) (count : Z).

  Definition pol_acq (c : pol_cfg) (s : pol_st) (now : Z) : pol_st * bool :=
    match c, s with
    | CTb p, STb s => let '(s', b) := tb_acquire O p s now in (STb s', b)
    | CLk iv, SLk s => let '(s', b) := lk_acquire O iv s now in (SLk s', b)
    | CSw wn n, SSw s => let '(s', b) := sw_acquire wn n s now in (SSw s', b)
    | CFw wn n, SFw s => let '(s', b) := fw_acquire wn n s now in (SFw s', b)
    | _, _ => (s, false)
    end.
  Definition pol_tua (c : pol_cfg) (s : pol_st) (now : Z) : pol_st * Z :=
    match c, s with
    | CTb p, STb s => let '(s', w) := tb_tua O p s now in (STb s', w)
    | CLk iv, SLk s => (SLk s, lk_tua O iv s now)
    | CSw wn n, SSw s => let '(s', w) := sw_tua O wn n s now in (SSw s', w)
    | CFw wn n, SFw s => let '(s', w) := fw_tua O wn n s now in (SFw s', w)
    | _, _ => (s, 0)
    end.
  Definition pol_same (s : pol_st) (o : pol_obs) : bool :=
    match s, o with
    | STb s, OTb tk l => neqb O (tb_tokens s) tk && option_eqb Z.eqb (tb_last s) l
    | SLk s, OLk l => option_eqb Z.eqb s l
    | SSw s, OSw l => list_eqb Z.eqb s l
    | SFw s, OFw st c => option_eqb Z.eqb (fw_start s) st && (fw_count s =? c)
    | _, _ => false
    end.

  (** observation after one handle_event: outputs, queue ids, poll flag, (received, forwarded, queued, dropped), policy state *)
  Definition eobs : Type := list eout * list Z * bool * (Z * Z * Z * Z) * pol_obs.

  Fixpoint ok_ent_run (c : pol_cfg) (cap : Z) (e : ent pol_st) (tr : list (ein * eobs)) : bool :=
    match tr with
    | [] => true
    | (i, (outs, q, pf, (rc, fw, qd, dr), po)) :: rest =>
        let '(e1, o1, _) := ent_step pol_st (pol_acq c) (pol_tua c) cap e i in
        list_eqb eout_eqb o1 outs && list_eqb Z.eqb (e_queue e1) q && Bool.eqb (e_poll e1) pf &&
        (e_recv e1 =? rc) && (e_fwd e1 =? fw) && (e_queued e1 =? qd) && (e_drop e1 =? dr) &&
        pol_same (e_pol e1) po && ok_ent_run c cap e1 rest
    end.

  (** case: (policy config, initial policy state, queue capacity, recorded trace).  Also checks
      that the recorded schedule is one the model considers possible ([sched_ok]). *)
  Definition ok_ent (x : pol_cfg * pol_st * Z * list (ein * eobs)) : bool :=
    let '(c, s0, cap, tr) := x in
    let e0 := ent_init pol_st s0 in
    ok_ent_run c cap e0 tr &&
    sched_ok pol_st (pol_acq c) (pol_tua c) cap e0 (match tr with [] => 0 | (i, _) :: _ => ein_time i end) None (map fst tr).
End PolSum.

Arguments CTb {O}. Arguments CLk {O}. Arguments CSw {O}. Arguments CFw {O}.
Arguments STb {O}. Arguments SLk {O}. Arguments SSw {O}. Arguments SFw {O}.
Arguments OTb {O}. Arguments OLk {O}. Arguments OSw {O}. Arguments OFw {O}.

(* ------------------------------------------------------------------ *)
(** * Inductor (inductor.py): the same buffer/poll machine; its "policy" is the EWMA of
    inter-arrival times.  [math.exp] is outside the model: the weight
    [alpha = 1 - exp(-dt/tau)] of each arrival is an input (recorded by the harness with
    the same expression).  [dflt] is the constant 0.01 (s) used before an estimate exists. *)
Section Inductor.
  Variable O : numops.
  Variable dflt : num O.
  Record ips := { i_sm : option (num O); i_la : option Z; i_lo : option Z }.

  (** [_update_rate_estimate] followed by [self._last_arrival_time = now] *)
  Definition ind_update (s : ips) (now : Z) (alpha : num O) : ips :=
    match i_la s with
    | None => {| i_sm := i_sm s; i_la := Some now; i_lo := i_lo s |}
    | Some la =>
        let dt := secs O (now - la) in
        if nlt O dt (n0 O) then {| i_sm := i_sm s; i_la := Some now; i_lo := i_lo s |}
        else {| i_sm := match i_sm s with
                        | None => Some dt
                        | Some sm => Some (nadd O (nmul O alpha dt) (nmul O (nsub O (n1 O) alpha) sm))
                        end;
                i_la := Some now; i_lo := i_lo s |}
    end.

  (** [_can_forward] *)
  Definition ind_can (s : ips) (now : Z) : bool :=
    match i_lo s with
    | None => true
    | Some lo =>
        match i_sm s with
        | None => true
        | Some sm => if nle O sm (n0 O) then true else nle O sm (secs O (now - lo))
        end
    end.

  (** [_can_forward] + [_forward] (sets [_last_output_time]) *)
  Definition ind_acq (s : ips) (now : Z) : ips * bool :=
    if ind_can s now then ({| i_sm := i_sm s; i_la := i_la s; i_lo := Some now |}, true) else (s, false).

  (** the delay of [_ensure_poll_scheduled] (with the 1 ns guard of the repaired code) *)
  Definition ind_tua (s : ips) (now : Z) : ips * Z :=
    (s, guard (nanos O (match i_sm s with
                        | Some sm => if neqb O sm (n0 O) then dflt else sm
                        | None => dflt
                        end))).

  Inductive iin := IReq (id now : Z) (alpha : num O) | IPoll (now : Z).

  Definition set_pol (e : ent ips) (ps : ips) : ent ips :=
    {| e_pol := ps; e_queue := e_queue e; e_poll := e_poll e;
       e_recv := e_recv e; e_fwd := e_fwd e; e_queued := e_queued e; e_drop := e_drop e |}.

  Definition ind_step (cap : Z) (e : ent ips) (i : iin) : ent ips * list eout * list Z :=
    match i with
    | IReq id now a => ent_step ips ind_acq ind_tua cap (set_pol e (ind_update (e_pol e) now a)) (EReq id now)
    | IPoll now => ent_step ips ind_acq ind_tua cap e (EPoll now)
    end.

  Fixpoint ind_run (cap : Z) (e : ent ips) (ins : list iin) : ent ips * list eout * list Z :=
    match ins with
    | [] => (e, [], [])
    | i :: r => let '(e1, o1, d1) := ind_step cap e i in
                let '(e2, o2, d2) := ind_run cap e1 r in (e2, o1 ++ o2, d1 ++ d2)
    end.

  Definition ireq_ids (ins : list iin) : list Z :=
    flat_map (fun i => match i with IReq id _ _ => [id] | IPoll _ => [] end) ins.

  Definition ips_same (s : ips) (ob : option (num O) * option Z * option Z) : bool :=
    let '(sm, la, lo) := ob in
    option_eqb (neqb O) (i_sm s) sm && option_eqb Z.eqb (i_la s) la && option_eqb Z.eqb (i_lo s) lo.

  Definition iobs : Type := list eout * list Z * bool * (Z * Z * Z * Z) * (option (num O) * option Z * option Z).

  Fixpoint ok_ind_run (cap : Z) (e : ent ips) (tr : list (iin * iobs)) : bool :=
    match tr with
    | [] => true
    | (i, (outs, q, pf, (rc, fw, qd, dr), po)) :: rest =>
        let '(e1, o1, _) := ind_step cap e i in
        list_eqb eout_eqb o1 outs && list_eqb Z.eqb (e_queue e1) q && Bool.eqb (e_poll e1) pf &&
        (e_recv e1 =? rc) && (e_fwd e1 =? fw) && (e_queued e1 =? qd) && (e_drop e1 =? dr) &&
        ips_same (e_pol e1) po && ok_ind_run cap e1 rest
    end.
End Inductor.

Arguments i_sm {O}. Arguments i_la {O}. Arguments i_lo {O}.
Arguments IReq {O}. Arguments IPoll {O}.

(** case: (0.01, queue capacity, recorded trace) *)
Definition ok_ind (O : numops) (x : num O * Z * list (iin O * iobs O)) : bool :=
  let '(dflt, cap, tr) := x in
  ok_ind_run O dflt cap (ent_init (ips O) {| i_sm := None; i_la := None; i_lo := None |}) tr.

(** * NullRateLimiter (null.py): forwards every event at its own time. *)
Definition null_step (id now : Z) : list eout := [OFwd id now].
Definition ok_null (tr : list (Z * Z * list eout)) : bool :=
  forallb (fun x => let '(id, now, outs) := x in list_eqb eout_eqb (null_step id now) outs) tr.

(* ------------------------------------------------------------------ *)
(** * DistributedRateLimiter (distributed.py): several limiter instances share a KVStore
    counter per window.  [handle_event] is a generator with two yield points (the store's
    read and write latencies): one state per yield point, one step per resumption.
    The window id ([int(now_s // window)], a float floor division) is an input. *)
Record dls := {
  d_win : option Z; d_local : Z; d_known : Z;
  d_recv : Z; d_fwd : Z; d_drop : Z; d_reads : Z; d_writes : Z; d_lrej : Z; d_grej : Z;
}.
Definition dls_init : dls :=
  {| d_win := None; d_local := 0; d_known := 0; d_recv := 0; d_fwd := 0; d_drop := 0;
     d_reads := 0; d_writes := 0; d_lrej := 0; d_grej := 0 |}.

(** a suspended handler: (request id, (limiter, window id, Some new_count after the read)) *)
Definition dproc : Type := Z * (Z * Z * option Z).

Record dworld := {
  w_store : list (Z * Z);            (* window id -> count, newest binding first *)
  w_lims : Z -> dls;
  w_procs : list dproc;
}.

Inductive dev :=
| DStart (lim req wid : Z)           (* handler entered *)
| DResume (req now : Z).             (* handler resumed after a store latency, at clock time [now] *)
Inductive dout := DWait | DFwd (req now : Z) | DDrop (req : Z).

Definition dupd (f : Z -> dls) (k : Z) (v : dls) : Z -> dls := fun k' => if k' =? k then v else f k'.

Fixpoint dfind (req : Z) (ps : list dproc) : option (Z * Z * option Z) :=
  match ps with [] => None | (r, x) :: rest => if r =? req then Some x else dfind req rest end.
Fixpoint dremove (req : Z) (ps : list dproc) : list dproc :=
  match ps with [] => [] | (r, x) :: rest => if r =? req then rest else (r, x) :: dremove req rest end.
Fixpoint dset (req : Z) (x : Z * Z * option Z) (ps : list dproc) : list dproc :=
  match ps with [] => [] | (r, y) :: rest => if r =? req then (r, x) :: rest else (r, y) :: dset req x rest end.

Section Dist.
  Variable limit : Z.                (* global_limit *)

  Definition dist_step (w : dworld) (e : dev) : dworld * dout :=
    match e with
    | DStart lim req wid =>
        let L := w_lims w lim in
        (* window change resets the local view *)
        let '(lc, kn) := match d_win L with
                         | Some k => if k =? wid then (d_local L, d_known L) else (0, 0)
                         | None => (0, 0)
                         end in
        if limit <=? kn then
          ({| w_store := w_store w;
              w_lims := dupd (w_lims w) lim
                {| d_win := Some wid; d_local := lc; d_known := kn; d_recv := d_recv L + 1; d_fwd := d_fwd L;
                   d_drop := d_drop L + 1; d_reads := d_reads L; d_writes := d_writes L;
                   d_lrej := d_lrej L + 1; d_grej := d_grej L |};
              w_procs := w_procs w |}, DDrop req)
        else
          ({| w_store := w_store w;
              w_lims := dupd (w_lims w) lim
                {| d_win := Some wid; d_local := lc; d_known := kn; d_recv := d_recv L + 1; d_fwd := d_fwd L;
                   d_drop := d_drop L; d_reads := d_reads L + 1; d_writes := d_writes L;
                   d_lrej := d_lrej L; d_grej := d_grej L |};
              w_procs := w_procs w ++ [(req, (lim, wid, None))] |}, DWait)
    | DResume req now =>
        match dfind req (w_procs w) with
        | None => (w, DWait)                      (* not a suspended handler: ignored *)
        | Some (lim, wid, None) =>
            (* the read completed: current global count *)
            let L := w_lims w lim in
            let cur := zget wid (w_store w) in
            if limit <=? cur then
              ({| w_store := w_store w;
                  w_lims := dupd (w_lims w) lim
                    {| d_win := d_win L; d_local := d_local L; d_known := cur; d_recv := d_recv L; d_fwd := d_fwd L;
                       d_drop := d_drop L + 1; d_reads := d_reads L; d_writes := d_writes L;
                       d_lrej := d_lrej L; d_grej := d_grej L + 1 |};
                  w_procs := dremove req (w_procs w) |}, DDrop req)
            else
              ({| w_store := w_store w;
                  w_lims := dupd (w_lims w) lim
                    {| d_win := d_win L; d_local := d_local L; d_known := cur; d_recv := d_recv L; d_fwd := d_fwd L;
                       d_drop := d_drop L; d_reads := d_reads L; d_writes := d_writes L + 1;
                       d_lrej := d_lrej L; d_grej := d_grej L |};
                  w_procs := dset req (lim, wid, Some (cur + 1)) (w_procs w) |}, DWait)
        | Some (lim, wid, Some newc) =>
            (* the write completed *)
            let L := w_lims w lim in
            ({| w_store := (wid, newc) :: w_store w;
                w_lims := dupd (w_lims w) lim
                  {| d_win := d_win L; d_local := d_local L + 1; d_known := newc; d_recv := d_recv L; d_fwd := d_fwd L + 1;
                     d_drop := d_drop L; d_reads := d_reads L; d_writes := d_writes L;
                     d_lrej := d_lrej L; d_grej := d_grej L |};
                w_procs := dremove req (w_procs w) |}, DFwd req now)   (* forward stamped with the current time (repaired code) *)
        end
    end.

  Fixpoint dist_run (w : dworld) (es : list dev) : dworld * list dout :=
    match es with
    | [] => (w, [])
    | e :: r => let '(w1, o) := dist_step w e in let '(w2, os) := dist_run w1 r in (w2, o :: os)
    end.

  Definition dworld_init : dworld := {| w_store := []; w_lims := fun _ => dls_init; w_procs := [] |}.

  (** observation after a segment: output, store contents as (window, count) pairs, per-limiter
      (window, local, known, received, forwarded, dropped, reads, writes, local rej, global rej) *)
  Definition dls_same (L : dls) (o : option Z * Z * Z * (Z * Z * Z * Z * Z * Z * Z)) : bool :=
    let '(wn, lc, kn, (rc, fw, dr, rd, wr, lr, gr)) := o in
    option_eqb Z.eqb (d_win L) wn && (d_local L =? lc) && (d_known L =? kn) && (d_recv L =? rc) && (d_fwd L =? fw) &&
    (d_drop L =? dr) && (d_reads L =? rd) && (d_writes L =? wr) && (d_lrej L =? lr) && (d_grej L =? gr).
  Definition dout_eqb (a b : dout) : bool :=
    match a, b with DWait, DWait => true | DFwd x t, DFwd y u => (x =? y) && (t =? u) | DDrop x, DDrop y => x =? y | _, _ => false end.
  Definition dobs : Type := dout * list (Z * Z) * list (option Z * Z * Z * (Z * Z * Z * Z * Z * Z * Z)).

  Fixpoint same_lims (f : Z -> dls) (i : Z) (obs : list (option Z * Z * Z * (Z * Z * Z * Z * Z * Z * Z))) : bool :=
    match obs with [] => true | o :: r => dls_same (f i) o && same_lims f (i + 1) r end.

  Fixpoint ok_dist_run (w : dworld) (tr : list (dev * dobs)) : bool :=
    match tr with
    | [] => true
    | (e, (o, st, ls)) :: rest =>
        let '(w1, o1) := dist_step w e in
        dout_eqb o1 o && forallb (fun kv => zget (fst kv) (w_store w1) =? snd kv) st && same_lims (w_lims w1) 0 ls &&
        ok_dist_run w1 rest
    end.
End Dist.

Definition ok_dist (x : Z * list (dev * dobs)) : bool :=
  let '(limit, tr) := x in ok_dist_run limit dworld_init tr.

(* ------------------------------------------------------------------ *)
(** * Instance 1: exact rationals *)
Definition G : Q := 1000000000 # 1.

Definition qsecs (d : Z) : Q := d # 1000000000.
(** [int(x * 1e9)]: truncation toward zero. *)
Definition qnanos (x : Q) : Z :=
  let y := (x * G)%Q in if Qle_bool 0 y then Qfloor y else Qceiling y.

Definition Qops : numops := {|
  num := Q;
  nadd := Qplus; nsub := Qminus; nmul := Qmult; ndiv := Qdiv;
  nle := Qle_bool;
  nlt := fun a b => negb (Qle_bool b a);
  neqb := Qeq_bool;
  n0 := 0%Q; n1 := 1%Q;
  secs := qsecs;
  nanos := qnanos;
|}.

(* ------------------------------------------------------------------ *)
(** * Instance 2: IEEE binary64 (CPython floats) *)
Definition f_of_Z (z : Z) : float :=
  if z <? 0 then PrimFloat.opp (PrimFloat.of_uint63 (Uint63.of_Z (- z)))
  else PrimFloat.of_uint63 (Uint63.of_Z z).

(** Truncation toward zero of a finite float, as an integer (Python [int(f)]).
    Non-finite values map to 0 (Python raises; never generated). *)
Definition f_trunc (f : float) : Z :=
  match Prim2SF f with
  | S754_finite sg m e =>
      let a := if 0 <=? e then Z.pos m * 2 ^ e else Z.pos m / 2 ^ (- e) in
      if sg then - a else a
  | _ => 0
  end.

Definition f1e9 : float := f_of_Z 1000000000.

(** A float given by the harness as [m * 2^e] (exact; from [float.as_integer_ratio]/frexp). *)
Definition fl (m e : Z) : float := Z.ldexp (f_of_Z m) e.

Definition Fops : numops := {|
  num := float;
  nadd := PrimFloat.add; nsub := PrimFloat.sub; nmul := PrimFloat.mul; ndiv := PrimFloat.div;
  nle := PrimFloat.leb;
  nlt := PrimFloat.ltb;
  neqb := PrimFloat.eqb;
  n0 := PrimFloat.zero; n1 := PrimFloat.one;
  secs := fun d => PrimFloat.div (f_of_Z d) f1e9;
  nanos := fun x => f_trunc (PrimFloat.mul x f1e9);
|}.

(** The comparison functions the harness calls. *)
Definition ok_tb_q := ok_tb Qops.
Definition ok_tb_f := ok_tb Fops.
Definition ok_lk_q := ok_lk Qops.
Definition ok_lk_f := ok_lk Fops.
Definition ok_sw_q := ok_sw Qops.
Definition ok_sw_f := ok_sw Fops.
Definition ok_fw_q := ok_fw Qops.
Definition ok_fw_f := ok_fw Fops.
Definition ok_ad_q := ok_ad Qops.
Definition ok_ad_f := ok_ad Fops.
Definition ok_ent_q := ok_ent Qops.
Definition ok_ent_f := ok_ent Fops.
Definition ok_ind_f := ok_ind Fops.
