(** C10 — executable models of happysimulator/components/rate_limiter/policy.py
    (TokenBucket, LeakyBucket, SlidingWindow, FixedWindow, Adaptive policies).

    No proofs here.  Times are integer nanoseconds ([Z], [Instant.nanoseconds]).
    The policies compute with Python floats; the control flow is written ONCE,
    generically over a record [numops] of the arithmetic the code uses, and is
    instantiated twice:

    - [Qops]: exact rationals.  The theorems are about this instance.  On the
      dyadic grid (times multiples of 2^-9 s = 1953125 ns, parameters dyadic,
      rates powers of two) every binary64 operation the policies perform is
      exact, so this instance and the implementation agree bit for bit there.
    - [Fops]: IEEE binary64 through Coq's primitive floats, operation for
      operation what CPython does ([float(ns) / 1e9], [int(x * 1e9)], [+ - * /],
      comparisons).  This instance is compared with the implementation on
      arbitrary (off-grid) inputs.

    [secs d]  = [Duration(d).to_seconds()]            = [float(d) / 1_000_000_000]
    [nanos x] = [Duration.from_seconds(x).nanoseconds] = [int(x * 1_000_000_000)]
    (also what [Instant +/- float] adds/subtracts). *)
From HS Require Import Base.Prelude.
From Coq Require Import QArith Qround Floats.
Local Open Scope Z_scope.

Record numops := {
  num : Type;
  nadd : num -> num -> num;
  nsub : num -> num -> num;
  nmul : num -> num -> num;
  ndiv : num -> num -> num;
  nle : num -> num -> bool;      (* a <= b *)
  nlt : num -> num -> bool;      (* a <  b *)
  neqb : num -> num -> bool;     (* only used to compare with observations *)
  n0 : num;
  n1 : num;
  secs : Z -> num;
  nanos : num -> Z;
}.

(** Operations of a policy sequence (direct drive) and what is observed. *)
Inductive pop :=
| Acq (now : Z)          (* try_acquire(now) -> 1/0 *)
| Tua (now : Z).         (* time_until_available(now) -> ns *)

(** Operations on an AdaptivePolicy: the two calls plus the AIMD feedback. *)
Inductive aop :=
| ACall (o : pop)
| RecS (now : Z)         (* record_success *)
| RecF (now : Z).        (* record_failure *)

Definition b2z (b : bool) : Z := if b then 1 else 0.

Definition time_of (o : pop) : Z := match o with Acq t | Tua t => t end.
Definition atime_of (o : aop) : Z := match o with ACall o => time_of o | RecS t | RecF t => t end.
(** 1 when the operation is an acquire that was granted (result 1). *)
Definition granted (o : pop) (r : Z) : Z := match o with Acq _ => r | _ => 0 end.
Definition agranted (o : aop) (r : Z) : Z := match o with ACall o => granted o r | _ => 0 end.

(** Run a sequence; returns the final state and the number of granted acquires. *)
Fixpoint run_count {S Op} (adm : Op -> Z -> Z) (step : S -> Op -> S * Z) (s : S) (ops : list Op) : S * Z :=
  match ops with
  | [] => (s, 0)
  | o :: r => let '(s1, x) := step s o in
              let '(s2, n) := run_count adm step s1 r in (s2, adm o x + n)
  end.

(** Times of the granted acquires of a run, oldest first. *)
Fixpoint run_times {S} (step : S -> pop -> S * Z) (s : S) (ops : list pop) : list Z :=
  match ops with
  | [] => []
  | o :: r => let '(s1, x) := step s o in
              (if granted o x =? 1 then [time_of o] else []) ++ run_times step s1 r
  end.

Section Generic.
  Variable O : numops.
  Notation N := (num O).
  Notation "a +. b" := (nadd O a b) (at level 50, left associativity).
  Notation "a -. b" := (nsub O a b) (at level 50, left associativity).
  Notation "a *. b" := (nmul O a b) (at level 40, left associativity).
  Notation "a /. b" := (ndiv O a b) (at level 40, left associativity).
  Notation "a <=. b" := (nle O a b) (at level 70).
  Notation "a <. b" := (nlt O a b) (at level 70).

  (** Python [min(a, b)] / [max(a, b)]: the first argument unless the second is
      strictly smaller / greater. *)
  Definition nmin (a b : N) : N := if b <. a then b else a.
  Definition nmax (a b : N) : N := if a <. b then b else a.

  (** The "1 ns progress guard": [if wait == Duration.ZERO: return Duration(1)]. *)
  Definition guard (w : Z) : Z := if w =? 0 then 1 else w.

  (* ---------------------------------------------------------------- *)
  (** ** TokenBucketPolicy (policy.py:65-127) *)
  Record tbp := { tb_cap : N; tb_rate : N }.
  Record tbs := { tb_tokens : N; tb_last : option Z }.

  Definition tb_refill (p : tbp) (s : tbs) (now : Z) : tbs :=
    match tb_last s with
    | None => {| tb_tokens := tb_tokens s; tb_last := Some now |}
    | Some l =>
        let el := secs O (now - l) in
        if el <=. n0 O then s
        else {| tb_tokens := nmin (tb_cap p) (tb_tokens s +. el *. tb_rate p);
                tb_last := Some now |}
    end.

  Definition tb_acquire (p : tbp) (s : tbs) (now : Z) : tbs * bool :=
    let s := tb_refill p s now in
    if n1 O <=. tb_tokens s
    then ({| tb_tokens := tb_tokens s -. n1 O; tb_last := tb_last s |}, true)
    else (s, false).

  Definition tb_tua (p : tbp) (s : tbs) (now : Z) : tbs * Z :=
    let s := tb_refill p s now in
    if n1 O <=. tb_tokens s then (s, 0)
    else (s, guard (nanos O ((n1 O -. tb_tokens s) /. tb_rate p))).

  Definition tb_step (p : tbp) (s : tbs) (o : pop) : tbs * Z :=
    match o with
    | Acq t => let '(s', b) := tb_acquire p s t in (s', b2z b)
    | Tua t => tb_tua p s t
    end.

  (* ---------------------------------------------------------------- *)
  (** ** LeakyBucketPolicy (policy.py:130-170).  [lk_interval] is
      [1.0 / leak_rate], computed once by the constructor. *)
  Definition lk_interval (rate : N) : N := n1 O /. rate.

  Definition lk_acquire (iv : N) (s : option Z) (now : Z) : option Z * bool :=
    match s with
    | None => (Some now, true)
    | Some l => if iv <=. secs O (now - l) then (Some now, true) else (s, false)
    end.

  Definition lk_tua (iv : N) (s : option Z) (now : Z) : Z :=
    match s with
    | None => 0
    | Some l =>
        let rem := iv -. secs O (now - l) in
        if rem <=. n0 O then 0 else guard (nanos O rem)
    end.

  Definition lk_step (iv : N) (s : option Z) (o : pop) : option Z * Z :=
    match o with
    | Acq t => let '(s', b) := lk_acquire iv s t in (s', b2z b)
    | Tua t => (s, lk_tua iv s t)
    end.

  (* ---------------------------------------------------------------- *)
  (** ** SlidingWindowPolicy (policy.py:173-222).  State: the request log,
      oldest first.  [wn] = [nanos window_size] is what [Instant -/+ float]
      subtracts/adds. *)
  Fixpoint sw_prune (cutoff : Z) (log : list Z) : list Z :=
    match log with
    | t :: r => if t <? cutoff then sw_prune cutoff r else log
    | [] => []
    end.

  Definition sw_acquire (wn n : Z) (log : list Z) (now : Z) : list Z * bool :=
    let log := sw_prune (now - wn) log in
    if Z.of_nat (length log) <? n then (log ++ [now], true) else (log, false).

  Definition sw_tua (wn n : Z) (log : list Z) (now : Z) : list Z * Z :=
    let log := sw_prune (now - wn) log in
    if Z.of_nat (length log) <? n then (log, 0)
    else match log with
         | [] => (log, -1)                      (* IndexError: max_requests <= 0; not generated *)
         | oldest :: _ => (log, guard (nanos O (secs O (oldest + wn - now))))
         end.

  Definition sw_step (wn n : Z) (log : list Z) (o : pop) : list Z * Z :=
    match o with
    | Acq t => let '(s', b) := sw_acquire wn n log t in (s', b2z b)
    | Tua t => sw_tua wn n log t
    end.

  (* ---------------------------------------------------------------- *)
  (** ** FixedWindowPolicy (policy.py:225-289), with the window start computed
      in integer nanoseconds (repaired behaviour, see known_findings/C10.json
      C10-fixed-window-float-floor).  [wn] = [nanos window_size]. *)
  Record fws := { fw_start : option Z; fw_count : Z }.

  Definition fw_window_start (wn now : Z) : Z := (now / Z.max 1 wn) * Z.max 1 wn.

  Definition fw_reset (wn : Z) (s : fws) (now : Z) : fws :=
    let ws := fw_window_start wn now in
    match fw_start s with
    | None => {| fw_start := Some ws; fw_count := 0 |}
    | Some c => if c <? ws then {| fw_start := Some ws; fw_count := 0 |} else s
    end.

  Definition fw_acquire (wn n : Z) (s : fws) (now : Z) : fws * bool :=
    let s := fw_reset wn s now in
    if fw_count s <? n then ({| fw_start := fw_start s; fw_count := fw_count s + 1 |}, true)
    else (s, false).

  Definition fw_tua (wn n : Z) (s : fws) (now : Z) : fws * Z :=
    let s := fw_reset wn s now in
    if fw_count s <? n then (s, 0)
    else match fw_start s with
         | None => (s, 0)
         | Some c =>
             let rem := secs O (c + wn - now) in
             if rem <=. n0 O then (s, 0) else (s, guard (nanos O rem))
         end.

  Definition fw_step (wn n : Z) (s : fws) (o : pop) : fws * Z :=
    match o with
    | Acq t => let '(s', b) := fw_acquire wn n s t in (s', b2z b)
    | Tua t => fw_tua wn n s t
    end.

  (* ---------------------------------------------------------------- *)
  (** ** AdaptivePolicy (policy.py:310-442): token bucket whose rate moves by
      AIMD and whose cap is [rate * window]. *)
  Record adp := { ad_min : N; ad_max : N; ad_inc : N; ad_dec : N; ad_win : N }.
  Record ads := { ad_rate : N; ad_tokens : N; ad_last : option Z }.

  Definition ad_refill (p : adp) (s : ads) (now : Z) : ads :=
    match ad_last s with
    | None => {| ad_rate := ad_rate s; ad_tokens := ad_tokens s; ad_last := Some now |}
    | Some l =>
        let el := secs O (now - l) in
        if el <=. n0 O then s
        else {| ad_rate := ad_rate s;
                ad_tokens := nmin (ad_rate s *. ad_win p) (ad_tokens s +. el *. ad_rate s);
                ad_last := Some now |}
    end.

  Definition ad_acquire (p : adp) (s : ads) (now : Z) : ads * bool :=
    let s := ad_refill p s now in
    if n1 O <=. ad_tokens s
    then ({| ad_rate := ad_rate s; ad_tokens := ad_tokens s -. n1 O; ad_last := ad_last s |}, true)
    else (s, false).

  Definition ad_tua (p : adp) (s : ads) (now : Z) : ads * Z :=
    let s := ad_refill p s now in
    if n1 O <=. ad_tokens s then (s, 0)
    else (s, guard (nanos O ((n1 O -. ad_tokens s) /. ad_rate s))).

  Definition ad_success (p : adp) (s : ads) : ads :=
    {| ad_rate := nmin (ad_max p) (ad_rate s +. ad_inc p); ad_tokens := ad_tokens s; ad_last := ad_last s |}.
  Definition ad_failure (p : adp) (s : ads) : ads :=
    {| ad_rate := nmax (ad_min p) (ad_rate s *. ad_dec p); ad_tokens := ad_tokens s; ad_last := ad_last s |}.

  Definition ad_step (p : adp) (s : ads) (o : aop) : ads * Z :=
    match o with
    | ACall (Acq t) => let '(s', b) := ad_acquire p s t in (s', b2z b)
    | ACall (Tua t) => ad_tua p s t
    | RecS _ => (ad_success p s, 0)
    | RecF _ => (ad_failure p s, 0)
    end.

  (* ---------------------------------------------------------------- *)
  (** ** Comparison with the implementation, after every operation. *)
  Definition oz_eqb := option_eqb Z.eqb.

  Fixpoint ok_run {S Op Ob} (step : S -> Op -> S * Z) (same : S -> Ob -> bool)
           (s : S) (tr : list (Op * (Z * Ob))) : bool :=
    match tr with
    | [] => true
    | (o, (r, ob)) :: rest =>
        let '(s', r') := step s o in
        (r' =? r) && same s' ob && ok_run step same s' rest
    end.

  (** token bucket: ((capacity, rate, initial tokens), trace); observed state = (tokens, last) *)
  Definition ok_tb (c : (N * N * N) * list (pop * (Z * (N * option Z)))) : bool :=
    let '((cap, rate, init), tr) := c in
    ok_run (tb_step {| tb_cap := cap; tb_rate := rate |})
           (fun s ob => neqb O (tb_tokens s) (fst ob) && oz_eqb (tb_last s) (snd ob))
           {| tb_tokens := init; tb_last := None |} tr.

  (** leaky bucket: (rate, trace); observed state = last leak time *)
  Definition ok_lk (c : N * list (pop * (Z * option Z))) : bool :=
    let '(rate, tr) := c in
    ok_run (lk_step (lk_interval rate)) oz_eqb None tr.

  (** sliding window: ((window, max_requests), trace); observed state = log *)
  Definition ok_sw (c : (N * Z) * list (pop * (Z * list Z))) : bool :=
    let '((w, n), tr) := c in
    ok_run (sw_step (nanos O w) n) (list_eqb Z.eqb) [] tr.

  (** fixed window: ((window, requests_per_window), trace); observed = (start, count) *)
  Definition ok_fw (c : (N * Z) * list (pop * (Z * (option Z * Z)))) : bool :=
    let '((w, n), tr) := c in
    ok_run (fw_step (nanos O w) n)
           (fun s ob => oz_eqb (fw_start s) (fst ob) && (fw_count s =? snd ob))
           {| fw_start := None; fw_count := 0 |} tr.

  (** adaptive: ((min, max, inc, dec, window, initial rate), trace); observed = (rate, tokens, last) *)
  Definition ok_ad (c : (N * N * N * N * N * N) * list (aop * (Z * (N * N * option Z)))) : bool :=
    let '((mn, mx, inc, dec, win, r0), tr) := c in
    ok_run (ad_step {| ad_min := mn; ad_max := mx; ad_inc := inc; ad_dec := dec; ad_win := win |})
           (fun s ob => let '(r, tk, l) := ob in
                        neqb O (ad_rate s) r && neqb O (ad_tokens s) tk && oz_eqb (ad_last s) l)
           {| ad_rate := r0; ad_tokens := r0 *. win; ad_last := None |} tr.
End Generic.

Arguments tb_cap {O}. Arguments tb_rate {O}. Arguments tb_tokens {O}. Arguments tb_last {O}.
Arguments fw_start : clear implicits. Arguments fw_count : clear implicits.
Arguments ad_min {O}. Arguments ad_max {O}. Arguments ad_inc {O}. Arguments ad_dec {O}. Arguments ad_win {O}.
Arguments ad_rate {O}. Arguments ad_tokens {O}. Arguments ad_last {O}.

(* ------------------------------------------------------------------ *)
(** * RateLimitedEntity (rate_limited_entity.py) as a step machine over ANY policy.

    One step per [handle_event] call.  Requests carry an id (their arrival index);
    the FIFO buffer is a list of ids, oldest first.  Outputs: the forwarded request
    (event at [now] to the downstream) and the self-scheduled daemon poll. *)
Inductive ein := EReq (id now : Z) | EPoll (now : Z).
Inductive eout := OFwd (id now : Z) | OPoll (at_ : Z).

Definition ein_time (i : ein) : Z := match i with EReq _ t | EPoll t => t end.

Section Entity.
  Variable PS : Type.
  Variable pacq : PS -> Z -> PS * bool.      (* policy.try_acquire *)
  Variable ptua : PS -> Z -> PS * Z.         (* policy.time_until_available *)
  Variable cap : Z.                          (* queue_capacity *)

  Record ent := {
    e_pol : PS; e_queue : list Z; e_poll : bool;
    e_recv : Z; e_fwd : Z; e_queued : Z; e_drop : Z;
  }.

  (** [_ensure_poll_scheduled] *)
  Definition ensure_poll (e : ent) (now : Z) : ent * list eout :=
    if e_poll e then (e, [])
    else let '(ps, w) := ptua (e_pol e) now in
         ({| e_pol := ps; e_queue := e_queue e; e_poll := true;
             e_recv := e_recv e; e_fwd := e_fwd e; e_queued := e_queued e; e_drop := e_drop e |},
          [OPoll (now + w)]).

  (** [_handle_request]; third component: ids dropped by this call (ghost, for the theorems) *)
  Definition ent_request (e : ent) (id now : Z) : ent * list eout * list Z :=
    let '(ps, ok) := pacq (e_pol e) now in
    if ok then
      ({| e_pol := ps; e_queue := e_queue e; e_poll := e_poll e;
          e_recv := e_recv e + 1; e_fwd := e_fwd e + 1; e_queued := e_queued e; e_drop := e_drop e |},
       [OFwd id now], [])
    else if Z.of_nat (length (e_queue e)) <? cap then
      let e1 := {| e_pol := ps; e_queue := e_queue e ++ [id]; e_poll := e_poll e;
                   e_recv := e_recv e + 1; e_fwd := e_fwd e; e_queued := e_queued e + 1; e_drop := e_drop e |} in
      let '(e2, outs) := ensure_poll e1 now in (e2, outs, [])
    else
      ({| e_pol := ps; e_queue := e_queue e; e_poll := e_poll e;
          e_recv := e_recv e + 1; e_fwd := e_fwd e; e_queued := e_queued e; e_drop := e_drop e + 1 |},
       [], [id]).

  (** [_handle_poll] *)
  Definition ent_poll (e : ent) (now : Z) : ent * list eout * list Z :=
    let e0 := {| e_pol := e_pol e; e_queue := e_queue e; e_poll := false;
                 e_recv := e_recv e; e_fwd := e_fwd e; e_queued := e_queued e; e_drop := e_drop e |} in
    match e_queue e with
    | [] => (e0, [], [])
    | qid :: rest =>
        let '(ps, ok) := pacq (e_pol e) now in
        if ok then
          let e1 := {| e_pol := ps; e_queue := rest; e_poll := false;
                       e_recv := e_recv e; e_fwd := e_fwd e + 1; e_queued := e_queued e; e_drop := e_drop e |} in
          match rest with
          | [] => (e1, [OFwd qid now], [])
          | _ => let '(e2, outs) := ensure_poll e1 now in (e2, OFwd qid now :: outs, [])
          end
        else
          let e1 := {| e_pol := ps; e_queue := e_queue e; e_poll := false;
                       e_recv := e_recv e; e_fwd := e_fwd e; e_queued := e_queued e; e_drop := e_drop e |} in
          let '(e2, outs) := ensure_poll e1 now in (e2, outs, [])
    end.

  Definition ent_step (e : ent) (i : ein) : ent * list eout * list Z :=
    match i with EReq id now => ent_request e id now | EPoll now => ent_poll e now end.

  Definition ent_init (ps : PS) : ent :=
    {| e_pol := ps; e_queue := []; e_poll := false; e_recv := 0; e_fwd := 0; e_queued := 0; e_drop := 0 |}.

  (** Run: final state, all outputs in order, all dropped ids in order. *)
  Fixpoint ent_run (e : ent) (ins : list ein) : ent * list eout * list Z :=
    match ins with
    | [] => (e, [], [])
    | i :: r => let '(e1, o1, d1) := ent_step e i in
                let '(e2, o2, d2) := ent_run e1 r in (e2, o1 ++ o2, d1 ++ d2)
    end.

  Definition fwd_ids (outs : list eout) : list Z :=
    flat_map (fun o => match o with OFwd id _ => [id] | OPoll _ => [] end) outs.
  Definition req_ids (ins : list ein) : list Z :=
    flat_map (fun i => match i with EReq id _ => [id] | EPoll _ => [] end) ins.

  (** Schedules the engine can produce for this entity: times never decrease, a poll is
      delivered exactly at the time the entity asked for, and no request is delivered after
      the instant of a pending poll (at the same instant either order is possible: the
      engine breaks ties by event creation order).  [pend] = time of the pending poll. *)
  Definition pend_after (pend : option Z) (i : ein) (outs : list eout) : option Z :=
    let p0 := match i with EPoll _ => None | _ => pend end in
    fold_left (fun p o => match o with OPoll t => Some t | _ => p end) outs p0.

  Fixpoint sched_ok (e : ent) (last : Z) (pend : option Z) (ins : list ein) : bool :=
    match ins with
    | [] => true
    | i :: r =>
        let t := ein_time i in
        (last <=? t) &&
        match i, pend with
        | EPoll _, Some pt => t =? pt
        | EPoll _, None => false
        | EReq _ _, Some pt => t <=? pt
        | EReq _ _, None => true
        end &&
        let '(e1, o1, _) := ent_step e i in sched_ok e1 t (pend_after pend i o1) r
    end.
End Entity.

Arguments e_pol {PS}. Arguments e_queue {PS}. Arguments e_poll {PS}.
Arguments e_recv {PS}. Arguments e_fwd {PS}. Arguments e_queued {PS}. Arguments e_drop {PS}.

(** The four self-contained policies as one type (for the entity correspondence). *)
Section PolSum.
  Variable O : numops.
  Inductive pol_cfg := CTb (p : tbp O) | CLk (iv : num O) | CSw (wn n : Z) | CFw (wn n : Z).
  Inductive pol_st := STb (s : tbs O) | SLk (s : option Z) | SSw (log : list Z) | SFw (s : fws).
  Inductive pol_obs := OTb (tokens : num O) (last : option Z) | OLk (last : option Z)
                     | OSw (log : list Z) | OFw (start : option Z) (count : Z).

  Definition pol_acq (c : pol_cfg) (s : pol_st) (now : Z) : pol_st * bool :=
    match c, s with
    | CTb p, STb s => let '(s', b) := tb_acquire O p s now in (STb s', b)
    | CLk iv, SLk s => let '(s', b) := lk_acquire O iv s now in (SLk s', b)
    | CSw wn n, SSw s => let '(s', b) := sw_acquire wn n s now in (SSw s', b)
    | CFw wn n, SFw s => let '(s', b) := fw_acquire wn n s now in (SFw s', b)
    | _, _ => (s, false)
    end.
  Definition pol_tua (c : pol_cfg) (s : pol_st) (now : Z) : pol_st * Z :=
    match c, s with
    | CTb p, STb s => let '(s', w) := tb_tua O p s now in (STb s', w)
    | CLk iv, SLk s => (SLk s, lk_tua O iv s now)
    | CSw wn n, SSw s => let '(s', w) := sw_tua O wn n s now in (SSw s', w)
    | CFw wn n, SFw s => let '(s', w) := fw_tua O wn n s now in (SFw s', w)
    | _, _ => (s, 0)
    end.
  Definition pol_same (s : pol_st) (o : pol_obs) : bool :=
    match s, o with
    | STb s, OTb tk l => neqb O (tb_tokens s) tk && option_eqb Z.eqb (tb_last s) l
    | SLk s, OLk l => option_eqb Z.eqb s l
    | SSw s, OSw l => list_eqb Z.eqb s l
    | SFw s, OFw st c => option_eqb Z.eqb (fw_start s) st && (fw_count s =? c)
    | _, _ => false
    end.

  Definition eout_eqb (a b : eout) : bool :=
    match a, b with
    | OFwd i t, OFwd j u => (i =? j) && (t =? u)
    | OPoll t, OPoll u => t =? u
    | _, _ => false
    end.

  (** observation after one handle_event: outputs, queue ids, poll flag, (received, forwarded, queued, dropped), policy state *)
  Definition eobs : Type := list eout * list Z * bool * (Z * Z * Z * Z) * pol_obs.

  Fixpoint ok_ent_run (c : pol_cfg) (cap : Z) (e : ent pol_st) (tr : list (ein * eobs)) : bool :=
    match tr with
    | [] => true
    | (i, (outs, q, pf, (rc, fw, qd, dr), po)) :: rest =>
        let '(e1, o1, _) := ent_step pol_st (pol_acq c) (pol_tua c) cap e i in
        list_eqb eout_eqb o1 outs && list_eqb Z.eqb (e_queue e1) q && Bool.eqb (e_poll e1) pf &&
        (e_recv e1 =? rc) && (e_fwd e1 =? fw) && (e_queued e1 =? qd) && (e_drop e1 =? dr) &&
        pol_same (e_pol e1) po && ok_ent_run c cap e1 rest
    end.

  (** case: (policy config, initial policy state, queue capacity, recorded trace).  Also checks
      that the recorded schedule is one the model considers possible ([sched_ok]). *)
  Definition ok_ent (x : pol_cfg * pol_st * Z * list (ein * eobs)) : bool :=
    let '(c, s0, cap, tr) := x in
    let e0 := ent_init pol_st s0 in
    ok_ent_run c cap e0 tr &&
    sched_ok pol_st (pol_acq c) (pol_tua c) cap e0 (match tr with [] => 0 | (i, _) :: _ => ein_time i end) None (map fst tr).
End PolSum.

Arguments CTb {O}. Arguments CLk {O}. Arguments CSw {O}. Arguments CFw {O}.
Arguments STb {O}. Arguments SLk {O}. Arguments SSw {O}. Arguments SFw {O}.
Arguments OTb {O}. Arguments OLk {O}. Arguments OSw {O}. Arguments OFw {O}.

(* ------------------------------------------------------------------ *)
(** * Instance 1: exact rationals *)
Definition G : Q := 1000000000 # 1.

Definition qsecs (d : Z) : Q := d # 1000000000.
(** [int(x * 1e9)]: truncation toward zero. *)
Definition qnanos (x : Q) : Z :=
  let y := (x * G)%Q in if Qle_bool 0 y then Qfloor y else Qceiling y.

Definition Qops : numops := {|
  num := Q;
  nadd := Qplus; nsub := Qminus; nmul := Qmult; ndiv := Qdiv;
  nle := Qle_bool;
  nlt := fun a b => negb (Qle_bool b a);
  neqb := Qeq_bool;
  n0 := 0%Q; n1 := 1%Q;
  secs := qsecs;
  nanos := qnanos;
|}.

(* ------------------------------------------------------------------ *)
(** * Instance 2: IEEE binary64 (CPython floats) *)
Definition f_of_Z (z : Z) : float :=
  if z <? 0 then PrimFloat.opp (PrimFloat.of_uint63 (Uint63.of_Z (- z)))
  else PrimFloat.of_uint63 (Uint63.of_Z z).

(** Truncation toward zero of a finite float, as an integer (Python [int(f)]).
    Non-finite values map to 0 (Python raises; never generated). *)
Definition f_trunc (f : float) : Z :=
  match Prim2SF f with
  | S754_finite sg m e =>
      let a := if 0 <=? e then Z.pos m * 2 ^ e else Z.pos m / 2 ^ (- e) in
      if sg then - a else a
  | _ => 0
  end.

Definition f1e9 : float := f_of_Z 1000000000.

(** A float given by the harness as [m * 2^e] (exact; from [float.as_integer_ratio]/frexp). *)
Definition fl (m e : Z) : float := Z.ldexp (f_of_Z m) e.

Definition Fops : numops := {|
  num := float;
  nadd := PrimFloat.add; nsub := PrimFloat.sub; nmul := PrimFloat.mul; ndiv := PrimFloat.div;
  nle := PrimFloat.leb;
  nlt := PrimFloat.ltb;
  neqb := PrimFloat.eqb;
  n0 := PrimFloat.zero; n1 := PrimFloat.one;
  secs := fun d => PrimFloat.div (f_of_Z d) f1e9;
  nanos := fun x => f_trunc (PrimFloat.mul x f1e9);
|}.

(** The comparison functions the harness calls. *)
Definition ok_tb_q := ok_tb Qops.
Definition ok_tb_f := ok_tb Fops.
Definition ok_lk_q := ok_lk Qops.
Definition ok_lk_f := ok_lk Fops.
Definition ok_sw_q := ok_sw Qops.
Definition ok_sw_f := ok_sw Fops.
Definition ok_fw_q := ok_fw Qops.
Definition ok_fw_f := ok_fw Fops.
Definition ok_ad_q := ok_ad Qops.
Definition ok_ad_f := ok_ad Fops.
Definition ok_ent_q := ok_ent Qops.
Definition ok_ent_f := ok_ent Fops.
