(** C10 — the REGENERATED policy code ([Gen/PolicyGen.v]), driven through any
    sequence of try_acquire / time_until_available calls, produces exactly the
    grants of the hand-written models; so the rate bounds hold for the
    translated code itself. *)
From HS Require Import Base.Prelude Base.PyLib C10.Model C10.QFacts C10.TokenBucket C10.Leaky C10.Sliding C10.Fixed
  Gen.PolicyGen C10.GenTie.
From Coq Require Import QArith.
Local Open Scope Z_scope.

Section StepSim.
  Variables SA SB : Type.
  Variable stepA : SA -> pop -> SA * Z.
  Variable stepB : SB -> pop -> SB * Z.
  Variable R : SA -> SB -> Prop.
  Hypothesis step_ok : forall a b o, R a b ->
    R (fst (stepA a o)) (fst (stepB b o)) /\ snd (stepA a o) = snd (stepB b o).

  Lemma run_count_sim ops : forall a b, R a b ->
    R (fst (run_count granted stepA a ops)) (fst (run_count granted stepB b ops))
    /\ snd (run_count granted stepA a ops) = snd (run_count granted stepB b ops).
  Proof.
    induction ops as [|o r IH]; intros a b H; cbn; [split; [exact H|reflexivity]|].
    destruct (step_ok a b o H) as [H1 H2].
    destruct (stepA a o) as [a1 x], (stepB b o) as [b1 y]; cbn [fst snd] in *. subst y.
    destruct (IH a1 b1 H1) as [H3 H4].
    destruct (run_count granted stepA a1 r) as [a2 n], (run_count granted stepB b1 r) as [b2 m]; cbn [fst snd] in *.
    subst m. split; [exact H3|reflexivity].
  Qed.

  Lemma run_times_sim ops : forall a b, R a b -> run_times stepA a ops = run_times stepB b ops.
  Proof.
    induction ops as [|o r IH]; intros a b H; cbn; [reflexivity|].
    destruct (step_ok a b o H) as [H1 H2].
    destruct (stepA a o) as [a1 x], (stepB b o) as [b1 y]; cbn [fst snd] in *. subst y.
    rewrite (IH a1 b1 H1). reflexivity.
  Qed.
End StepSim.

Section Code.
  Variable O : numops.

  Definition tb_code_step (s : TokenBucketPolicy O) (o : pop) : TokenBucketPolicy O * Z :=
    match o with
    | Acq t => let '(s', b) := TokenBucketPolicy_try_acquire O s t in (s', b2z b)
    | Tua t => TokenBucketPolicy_time_until_available O s t
    end.

  Lemma tb_code_step_ok p a b o : tb_abs O a = b /\ tb_par O a = p ->
    (tb_abs O (fst (tb_code_step a o)) = fst (tb_step O p b o) /\ tb_par O (fst (tb_code_step a o)) = p)
    /\ snd (tb_code_step a o) = snd (tb_step O p b o).
  Proof.
    intros [Ha Hp]. subst b p. destruct o as [t|t]; cbn [tb_code_step tb_step].
    - destruct (tie_tb_acquire O a t) as [H1 H2].
      destruct (TokenBucketPolicy_try_acquire O a t) as [s' x]; cbn [fst snd] in *.
      rewrite <- H1. cbn. repeat split; try reflexivity. exact H2.
    - destruct (tie_tb_tua O a t) as [H1 H2].
      destruct (TokenBucketPolicy_time_until_available O a t) as [s' x]; cbn [fst snd] in *.
      rewrite <- H1. cbn. repeat split; try reflexivity. exact H2.
  Qed.

  Definition lk_code_step (s : LeakyBucketPolicy O) (o : pop) : LeakyBucketPolicy O * Z :=
    match o with
    | Acq t => let '(s', b) := LeakyBucketPolicy_try_acquire O s t in (s', b2z b)
    | Tua t => (s, LeakyBucketPolicy_time_until_available O s t)
    end.

  Lemma lk_code_step_ok iv a b o :
    LeakyBucketPolicy__last_leak_time O a = b /\ LeakyBucketPolicy__leak_interval O a = iv ->
    (LeakyBucketPolicy__last_leak_time O (fst (lk_code_step a o)) = fst (lk_step O iv b o)
     /\ LeakyBucketPolicy__leak_interval O (fst (lk_code_step a o)) = iv)
    /\ snd (lk_code_step a o) = snd (lk_step O iv b o).
  Proof.
    intros [Ha Hp]. subst b iv. destruct o as [t|t]; cbn [lk_code_step lk_step].
    - destruct (tie_lk_acquire O a t) as [H1 H2].
      destruct (LeakyBucketPolicy_try_acquire O a t) as [s' x]; cbn [fst snd] in *.
      rewrite <- H1. cbn. repeat split; try reflexivity. exact H2.
    - cbn. rewrite tie_lk_tua. repeat split; reflexivity.
  Qed.

  Definition sw_code_step (s : SlidingWindowPolicy O) (o : pop) : SlidingWindowPolicy O * Z :=
    match o with
    | Acq t => let '(s', b) := SlidingWindowPolicy_try_acquire O s t in (s', b2z b)
    | Tua t => match SlidingWindowPolicy_time_until_available O s t with
               | Some r => r
               | None => (s, -1)              (* IndexError: empty log with max_requests <= 0 *)
               end
    end.

  Definition sw_rel (wn n : Z) (a : SlidingWindowPolicy O) (b : list Z) : Prop :=
    SlidingWindowPolicy__request_log O a = b /\ sw_wn O a = wn /\ SlidingWindowPolicy__max_requests O a = n.

  Lemma sw_code_step_ok wn n a b o : 0 < n -> sw_rel wn n a b ->
    sw_rel wn n (fst (sw_code_step a o)) (fst (sw_step O wn n b o))
    /\ snd (sw_code_step a o) = snd (sw_step O wn n b o).
  Proof.
    intros Hn (Ha & Hw & Hm). subst b wn n. unfold sw_rel. destruct o as [t|t]; cbn [sw_code_step sw_step].
    - destruct (tie_sw_acquire O a t) as (H1 & H2 & H3).
      destruct (SlidingWindowPolicy_try_acquire O a t) as [s' x]; cbn [fst snd] in *.
      rewrite <- H1. cbn. repeat split; try reflexivity; assumption.
    - destruct (tie_sw_tua O a t Hn) as ([s' x] & Hs & H1 & H2 & H3). rewrite Hs. cbn [fst snd] in *.
      rewrite <- H1. cbn. repeat split; try reflexivity; assumption.
  Qed.

  Definition fw_code_step (s : FixedWindowPolicy O) (o : pop) : FixedWindowPolicy O * Z :=
    match o with
    | Acq t => let '(s', b) := FixedWindowPolicy_try_acquire O s t in (s', b2z b)
    | Tua t => FixedWindowPolicy_time_until_available O s t
    end.

  Lemma fw_code_step_ok wn n a b o : fw_abs O a = b /\ fw_cfg O a = (wn, n) ->
    (fw_abs O (fst (fw_code_step a o)) = fst (fw_step O wn n b o) /\ fw_cfg O (fst (fw_code_step a o)) = (wn, n))
    /\ snd (fw_code_step a o) = snd (fw_step O wn n b o).
  Proof.
    intros [Ha Hc]. subst b. assert (Hw : fw_wn O a = wn) by (unfold fw_cfg in Hc; congruence).
    assert (Hn : FixedWindowPolicy__requests_per_window O a = n) by (unfold fw_cfg in Hc; congruence).
    destruct o as [t|t]; cbn [fw_code_step fw_step].
    - destruct (tie_fw_acquire O a t) as [H1 H2]. rewrite Hw, Hn in H1.
      destruct (FixedWindowPolicy_try_acquire O a t) as [s' x]; cbn [fst snd] in *.
      rewrite <- H1. cbn. repeat split; try reflexivity. congruence.
    - destruct (tie_fw_tua O a t) as [H1 H2]. rewrite Hw, Hn in H1.
      destruct (FixedWindowPolicy_time_until_available O a t) as [s' x]; cbn [fst snd] in *.
      rewrite <- H1. cbn. repeat split; try reflexivity. congruence.
  Qed.
End Code.

(* ------------------------------------------------------------------ *)
(** * The rate bounds, for the translated code (exact-rational arithmetic) *)
Local Open Scope Q_scope.

Theorem tb_code_never_over_admits : forall cap rate : Q, 0 < rate -> 0 <= cap ->
  forall init pre mid B, 0 <= init -> init <= B -> cap <= B -> sorted (pre ++ mid) ->
  let s0 := mkTokenBucketPolicy Qops cap rate init None in
  let s1 := fst (run_count granted (tb_code_step Qops) s0 pre) in
  inject_Z (snd (run_count granted (tb_code_step Qops) s1 mid)) <=
    B + rate * qsecs (match mid with [] => 0 | o :: r => last_time (time_of o) r - time_of o end)%Z.
Proof.
  intros cap rate Hr Hc init pre mid B Hi HB HcB Hs s0 s1.
  set (p := Build_tbp Qops cap rate).
  set (R := fun (a : TokenBucketPolicy Qops) (b : tbs Qops) => tb_abs Qops a = b /\ tb_par Qops a = p).
  assert (Hstep : forall a b o, R a b ->
            R (fst (tb_code_step Qops a o)) (fst (tb_step Qops p b o))
            /\ snd (tb_code_step Qops a o) = snd (tb_step Qops p b o))
    by (intros a b o H; apply tb_code_step_ok; exact H).
  assert (H0 : R s0 (Build_tbs Qops init None)) by (split; reflexivity).
  destruct (run_count_sim _ _ _ _ R Hstep pre _ _ H0) as [H1 _].
  destruct (run_count_sim _ _ _ _ R Hstep mid _ _ H1) as [_ H2].
  subst s1. rewrite H2.
  exact (tb_never_over_admits p Hr Hc init pre mid B Hi HB HcB Hs).
Qed.

Theorem lk_code_spacing : forall rate iv ops last,
  let s := mkLeakyBucketPolicy Qops rate iv last in
  spaced_from iv last (run_times (lk_code_step Qops) s ops).
Proof.
  intros rate iv ops last s.
  set (R := fun (a : LeakyBucketPolicy Qops) (b : option Z) =>
              LeakyBucketPolicy__last_leak_time Qops a = b /\ LeakyBucketPolicy__leak_interval Qops a = iv).
  assert (Hstep : forall a b o, R a b ->
            R (fst (lk_code_step Qops a o)) (fst (lk_step Qops iv b o))
            /\ snd (lk_code_step Qops a o) = snd (lk_step Qops iv b o))
    by (intros a b o H; apply lk_code_step_ok; exact H).
  rewrite (run_times_sim _ _ _ _ R Hstep ops s last) by (split; reflexivity).
  apply lk_spacing.
Qed.

Theorem sw_code_never_over_admits : forall (ws : Q) n ops, (0 < n)%Z -> sorted ops ->
  let wn := nanos Qops ws in
  windows_ok wn n [] (run_times (sw_code_step Qops) (mkSlidingWindowPolicy Qops ws n []) ops).
Proof.
  intros ws n ops Hn Hs wn.
  assert (Hstep : forall a b o, sw_rel Qops wn n a b ->
            sw_rel Qops wn n (fst (sw_code_step Qops a o)) (fst (sw_step Qops wn n b o))
            /\ snd (sw_code_step Qops a o) = snd (sw_step Qops wn n b o))
    by (intros a b o H; apply sw_code_step_ok; assumption).
  rewrite (run_times_sim _ _ _ _ (sw_rel Qops wn n) Hstep ops _ []) by (repeat split).
  apply sw_never_over_admits. exact Hs.
Qed.

Theorem fw_code_aligned_bound : forall (ws : Q) n, (1 <= nanos Qops ws)%Z -> (0 <= n)%Z -> forall ops k, sorted ops ->
  let wn := nanos Qops ws in
  (Z.of_nat (length (filter (inw wn k)
     (run_times (fw_code_step Qops) (mkFixedWindowPolicy Qops n ws None 0) ops))) <= n)%Z.
Proof.
  intros ws n Hw Hn ops k Hs wn.
  set (R := fun (a : FixedWindowPolicy Qops) (b : fws) => fw_abs Qops a = b /\ fw_cfg Qops a = (wn, n)).
  assert (Hstep : forall a b o, R a b ->
            R (fst (fw_code_step Qops a o)) (fst (fw_step Qops wn n b o))
            /\ snd (fw_code_step Qops a o) = snd (fw_step Qops wn n b o))
    by (intros a b o H; apply fw_code_step_ok; exact H).
  rewrite (run_times_sim _ _ _ _ R Hstep ops _ {| fw_start := None; fw_count := 0 |}) by (split; reflexivity).
  apply fw_aligned_bound; assumption.
Qed.
