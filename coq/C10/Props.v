(** Property C10 — the theorems the check counts as obligations.  Nothing but
    statements closed by [exact] and [Print Assumptions].  All statements are
    about the exact-rational instance [Qops] of the generic policy code of
    C10/Model.v (the binary64 instance [Fops] of the same code is what the
    correspondence compares with /repo off the dyadic grid).  Times are ns. *)
From HS Require Import Base.Prelude Base.PyLib C10.Model C10.QFacts C10.TokenBucket C10.Leaky C10.Sliding C10.Fixed C10.Adaptive C10.Entity C10.Dist C10.Reach
  Gen.PolicyGen C10.GenTie C10.CodeRun.
From Coq Require Import QArith Permutation.
Local Open Scope Q_scope.

(* ------------------------------------------------------------------ token bucket *)
(** Never over-admits: in any stretch [mid] of any run with non-decreasing times,
    granted <= B + rate * (last - first) for every B >= capacity and >= initial
    tokens (B = capacity for the default bucket). *)
Theorem c10_token_bucket_bound : forall p : tbp Qops, 0 < tb_rate p -> 0 <= tb_cap p ->
  forall init pre mid B, 0 <= init -> init <= B -> tb_cap p <= B -> sorted (pre ++ mid) ->
  let s0 := Build_tbs Qops init None in
  let s1 := fst (run_count granted (tb_step Qops p) s0 pre) in
  inject_Z (snd (run_count granted (tb_step Qops p) s1 mid)) <=
    B + tb_rate p * qsecs (match mid with [] => 0 | o :: r => last_time (time_of o) r - time_of o end).
Proof. exact tb_never_over_admits. Qed.
Print Assumptions c10_token_bucket_bound.

(** time_until_available = 0  ==>  an immediate try_acquire succeeds. *)
Theorem c10_token_bucket_tua_zero : forall p : tbp Qops, 0 < tb_rate p -> forall s now s1,
  tb_tua Qops p s now = (s1, 0%Z) ->
  snd (tb_acquire Qops p s now) = true /\ snd (tb_acquire Qops p s1 now) = true.
Proof. exact tb_tua_zero_acquires. Qed.
Print Assumptions c10_token_bucket_tua_zero.

(** time_until_available = w > 0  ==>  no call sequence at times in [now, now+w) is granted anything. *)
Theorem c10_token_bucket_tua_blocks : forall p : tbp Qops, 0 < tb_rate p -> 0 <= tb_cap p ->
  forall s now s1 w ops, tb_ready s now -> tb_tua Qops p s now = (s1, w) -> (0 < w)%Z ->
  nondecr now ops -> (last_time now ops < now + w)%Z ->
  snd (run_count granted (tb_step Qops p) s1 ops) = 0%Z.
Proof. exact tb_tua_positive_blocks. Qed.
Print Assumptions c10_token_bucket_tua_blocks.

(** Following the returned waits reaches an instant with tua = 0 after at most two waits. *)
Theorem c10_token_bucket_progress : forall p : tbp Qops, 0 < tb_rate p -> 0 <= tb_cap p -> 1 <= tb_cap p ->
  forall s now, tb_ready s now ->
  let '(s1, w1) := tb_tua Qops p s now in
  let '(s2, w2) := tb_tua Qops p s1 (now + w1) in
  let '(s3, w3) := tb_tua Qops p s2 (now + w1 + w2) in
  w3 = 0%Z /\ (0 <= w1)%Z /\ (0 <= w2)%Z.
Proof. exact tb_tua_progress. Qed.
Print Assumptions c10_token_bucket_progress.

(* ------------------------------------------------------------------ leaky bucket *)
(** Consecutive granted acquires are at least 1/rate seconds apart, in every run from every state. *)
Theorem c10_leaky_spacing : forall rate ops s,
  spaced_from (lk_interval Qops rate) s (run_times (lk_step Qops (lk_interval Qops rate)) s ops).
Proof. exact (fun rate => lk_spacing (lk_interval Qops rate)). Qed.
Print Assumptions c10_leaky_spacing.

Theorem c10_leaky_tua_zero : forall rate s now,
  lk_tua Qops (lk_interval Qops rate) s now = 0%Z -> snd (lk_acquire Qops (lk_interval Qops rate) s now) = true.
Proof. exact (fun rate => lk_tua_zero_acquires (lk_interval Qops rate)). Qed.
Print Assumptions c10_leaky_tua_zero.

Theorem c10_leaky_tua_blocks : forall rate s now ops,
  (0 < lk_tua Qops (lk_interval Qops rate) s now)%Z ->
  Forall (fun o => (time_of o < now + lk_tua Qops (lk_interval Qops rate) s now)%Z) ops ->
  snd (run_count granted (lk_step Qops (lk_interval Qops rate)) s ops) = 0%Z.
Proof. exact (fun rate => lk_tua_positive_blocks (lk_interval Qops rate)). Qed.
Print Assumptions c10_leaky_tua_blocks.

Theorem c10_leaky_progress : forall rate s now,
  let iv := lk_interval Qops rate in
  let w1 := lk_tua Qops iv s now in
  let w2 := lk_tua Qops iv s (now + w1) in
  let w3 := lk_tua Qops iv s (now + w1 + w2) in
  w3 = 0%Z /\ (0 <= w1)%Z /\ (0 <= w2)%Z.
Proof. exact (fun rate => lk_tua_progress (lk_interval Qops rate)). Qed.
Print Assumptions c10_leaky_progress.

(* ------------------------------------------------------------------ sliding window *)
(** Every grant at time t sees fewer than N earlier grants in [t - w, t]: at most N in any window. *)
Theorem c10_sliding_window_bound : forall wn n ops, sorted ops ->
  windows_ok wn n [] (run_times (sw_step Qops wn n) [] ops).
Proof. exact sw_never_over_admits. Qed.
Print Assumptions c10_sliding_window_bound.

(** ... in the usual form: at most N grants in any closed window [a, a + w]. *)
Theorem c10_sliding_any_window : forall wn n ops a, (0 <= n)%Z -> sorted ops ->
  (length (filter (in_range wn a) (run_times (sw_step Qops wn n) [] ops)) <= Z.to_nat n)%nat.
Proof. exact sw_any_window. Qed.
Print Assumptions c10_sliding_any_window.

Theorem c10_sliding_tua_zero : forall wn n log now log1,
  sw_tua Qops wn n log now = (log1, 0%Z) ->
  snd (sw_acquire wn n log now) = true /\ snd (sw_acquire wn n log1 now) = true.
Proof. exact sw_tua_zero_acquires. Qed.
Print Assumptions c10_sliding_tua_zero.

Theorem c10_sliding_tua_blocks : forall wn n log now log1 w ops,
  sw_tua Qops wn n log now = (log1, w) -> (0 < w)%Z ->
  Forall (fun o => (time_of o < now + w)%Z) ops ->
  snd (run_count granted (sw_step Qops wn n) log1 ops) = 0%Z.
Proof. exact sw_tua_positive_blocks. Qed.
Print Assumptions c10_sliding_tua_blocks.

Theorem c10_sliding_progress : forall wn n, (1 <= n)%Z -> forall log now, (Z.of_nat (length log) <= n)%Z ->
  let '(l1, w1) := sw_tua Qops wn n log now in
  let '(l2, w2) := sw_tua Qops wn n l1 (now + w1) in
  let '(l3, w3) := sw_tua Qops wn n l2 (now + w1 + w2) in
  w3 = 0%Z /\ (0 <= w1)%Z /\ (0 <= w2)%Z.
Proof. exact sw_tua_progress. Qed.
Print Assumptions c10_sliding_progress.

(* ------------------------------------------------------------------ fixed window (repaired code) *)
Theorem c10_fixed_window_aligned_bound : forall wn n, (1 <= wn)%Z -> (0 <= n)%Z -> forall ops k, sorted ops ->
  (Z.of_nat (length (filter (inw wn k) (run_times (fw_step Qops wn n) {| fw_start := None; fw_count := 0 |} ops))) <= n)%Z.
Proof. exact fw_aligned_bound. Qed.
Print Assumptions c10_fixed_window_aligned_bound.

Theorem c10_fixed_window_2n_bound : forall wn n, (1 <= wn)%Z -> (0 <= n)%Z -> forall ops a, sorted ops ->
  (Z.of_nat (length (filter (fun t => (a <=? t)%Z && (t <=? a + wn)%Z)
     (run_times (fw_step Qops wn n) {| fw_start := None; fw_count := 0 |} ops))) <= 2 * n)%Z.
Proof. exact fw_any_interval_bound. Qed.
Print Assumptions c10_fixed_window_2n_bound.

Theorem c10_fixed_tua_zero : forall wn n, (1 <= wn)%Z -> (0 <= n)%Z -> forall s lo now s1,
  fw_wf wn n s lo -> (lo <= now)%Z -> fw_tua Qops wn n s now = (s1, 0%Z) ->
  snd (fw_acquire wn n s now) = true /\ snd (fw_acquire wn n s1 now) = true.
Proof. exact fw_tua_zero_acquires. Qed.
Print Assumptions c10_fixed_tua_zero.

Theorem c10_fixed_tua_blocks : forall wn n, (1 <= wn)%Z -> (0 <= n)%Z -> forall s lo now s1 w ops,
  fw_wf wn n s lo -> (lo <= now)%Z -> fw_tua Qops wn n s now = (s1, w) -> (0 < w)%Z ->
  Forall (fun o => (time_of o < now + w)%Z) ops ->
  snd (run_count granted (fw_step Qops wn n) s1 ops) = 0%Z.
Proof. exact fw_tua_positive_blocks. Qed.
Print Assumptions c10_fixed_tua_blocks.

Theorem c10_fixed_progress : forall wn n, (1 <= wn)%Z -> (0 <= n)%Z -> (1 <= n)%Z -> forall s lo now,
  fw_wf wn n s lo -> (lo <= now)%Z ->
  let '(s1, w1) := fw_tua Qops wn n s now in
  let '(s2, w2) := fw_tua Qops wn n s1 (now + w1) in
  w2 = 0%Z /\ (0 <= w1)%Z.
Proof. exact fw_tua_progress. Qed.
Print Assumptions c10_fixed_progress.

(* ------------------------------------------------------------------ adaptive *)
Theorem c10_adaptive_rate_bounds : forall p : adp Qops,
  0 < ad_min p -> ad_min p <= ad_max p -> 0 <= ad_inc p -> 0 < ad_dec p /\ ad_dec p <= 1 ->
  forall ops s, rate_ok p s -> rate_ok p (fst (run_count agranted (ad_step Qops p) s ops)).
Proof. exact ad_rate_within_bounds. Qed.
Print Assumptions c10_adaptive_rate_bounds.

(** Bucket bound for the largest admissible rate: granted in any stretch <= max*window + max*(last - first). *)
Theorem c10_adaptive_bound : forall p : adp Qops,
  0 < ad_min p -> ad_min p <= ad_max p -> 0 <= ad_inc p -> 0 < ad_dec p /\ ad_dec p <= 1 -> 0 <= ad_win p ->
  forall s0 pre mid, rate_ok p s0 -> ad_tokens s0 == ad_rate s0 * ad_win p -> ad_last s0 = None ->
  asorted (pre ++ mid) ->
  let s1 := fst (run_count agranted (ad_step Qops p) s0 pre) in
  inject_Z (snd (run_count agranted (ad_step Qops p) s1 mid)) <=
    ad_max p * ad_win p +
    ad_max p * qsecs (match mid with [] => 0 | o :: r => alast_time (atime_of o) r - atime_of o end).
Proof. exact ad_never_over_admits. Qed.
Print Assumptions c10_adaptive_bound.

Theorem c10_adaptive_tua_zero : forall (p : adp Qops) (s : ads Qops) now s1, 0 < ad_rate s ->
  ad_tua Qops p s now = (s1, 0%Z) ->
  snd (ad_acquire Qops p s now) = true /\ snd (ad_acquire Qops p s1 now) = true.
Proof. exact ad_tua_zero_acquires. Qed.
Print Assumptions c10_adaptive_tua_zero.

(** (no feedback between the calls: [map ACall ops]) *)
Theorem c10_adaptive_tua_blocks : forall (p : adp Qops) (s : ads Qops) now s1 w ops,
  0 < ad_rate s -> 0 <= ad_win p -> tb_ready (tbs_of s) now -> ad_tua Qops p s now = (s1, w) -> (0 < w)%Z ->
  nondecr now ops -> (last_time now ops < now + w)%Z ->
  snd (run_count agranted (ad_step Qops p) s1 (map ACall ops)) = 0%Z.
Proof. exact ad_tua_positive_blocks. Qed.
Print Assumptions c10_adaptive_tua_blocks.

Theorem c10_adaptive_progress : forall (p : adp Qops) (s : ads Qops) now,
  0 < ad_rate s -> 1 <= ad_rate s * ad_win p -> tb_ready (tbs_of s) now ->
  let '(s1, w1) := ad_tua Qops p s now in
  let '(s2, w2) := ad_tua Qops p s1 (now + w1) in
  let '(s3, w3) := ad_tua Qops p s2 (now + w1 + w2) in
  w3 = 0%Z /\ (0 <= w1)%Z /\ (0 <= w2)%Z.
Proof. exact ad_tua_progress. Qed.
Print Assumptions c10_adaptive_progress.

(* ------------------------------------------------------------------ RateLimitedEntity, over ANY policy *)
(** Every request is forwarded, still queued, or dropped exactly once; received = forwarded + queued + dropped;
    no request is forwarded twice.  For arbitrary policy functions, any capacity, any input sequence. *)
Theorem c10_entity_exactly_once : forall PS pacq ptua cap ps ins,
  let '(e', outs, dr) := ent_run PS pacq ptua cap (ent_init PS ps) ins in
  Permutation (req_ids ins) (fwd_ids outs ++ e_queue e' ++ dr) /\
  (e_recv e' = e_fwd e' + Z.of_nat (length (e_queue e')) + e_drop e')%Z /\
  (NoDup (req_ids ins) -> NoDup (fwd_ids outs)).
Proof. exact ent_exactly_once. Qed.
Print Assumptions c10_entity_exactly_once.

Theorem c10_entity_conservation : forall PS pacq ptua cap ins (e : ent PS),
  let '(e', outs, dr) := ent_run PS pacq ptua cap e ins in
  Permutation (e_queue e ++ req_ids ins) (fwd_ids outs ++ e_queue e' ++ dr) /\
  (e_recv e' = e_recv e + Z.of_nat (length (req_ids ins)))%Z /\
  (e_fwd e' = e_fwd e + Z.of_nat (length (fwd_ids outs)))%Z /\
  (e_drop e' = e_drop e + Z.of_nat (length dr))%Z.
Proof. exact ent_conservation. Qed.
Print Assumptions c10_entity_conservation.

(** "forwards requests in arrival order": REFUTED on the faithful model (known finding
    C10-entity-arrival-overtakes-queue), for schedules the engine can produce. *)
Theorem c10_entity_fifo_refuted : ~ fifo_statement.
Proof. exact ent_fifo_refuted. Qed.
Print Assumptions c10_entity_fifo_refuted.

(** ... and what does hold: arrival order is kept by every run in which no request is admitted
    on arrival while earlier requests are still queued (in particular the buffer itself is FIFO). *)
Theorem c10_entity_fifo_partial : forall PS pacq ptua cap ps ins,
  incr (-1) (req_ids ins) -> no_overtake PS pacq ptua cap (ent_init PS ps) ins ->
  incr (-1) (fwd_ids (snd (fst (ent_run PS pacq ptua cap (ent_init PS ps) ins)))).
Proof. exact ent_fifo_partial. Qed.
Print Assumptions c10_entity_fifo_partial.

(* ------------------------------------------------------------------ Inductor, NullRateLimiter *)
(** Inductor (EWMA burst smoother): every request forwarded, queued or dropped exactly once —
    for any weights alpha (the exp() results are inputs), any time constant, any capacity. *)
Theorem c10_inductor_conservation : forall (O : numops) (dflt : Model.num O) cap ins (e : ent (ips O)),
  let '(e', outs, dr) := ind_run O dflt cap e ins in
  Permutation (e_queue e ++ ireq_ids O ins) (fwd_ids outs ++ e_queue e' ++ dr) /\
  (e_recv e' = e_recv e + Z.of_nat (length (ireq_ids O ins)))%Z /\
  (e_fwd e' = e_fwd e + Z.of_nat (length (fwd_ids outs)))%Z /\
  (e_drop e' = e_drop e + Z.of_nat (length dr))%Z.
Proof. exact ind_conservation. Qed.
Print Assumptions c10_inductor_conservation.

Theorem c10_null_forwards_all : forall reqs : list (Z * Z),
  fwd_ids (flat_map (fun r => null_step (fst r) (snd r)) reqs) = map fst reqs.
Proof. exact null_forwards_all. Qed.
Print Assumptions c10_null_forwards_all.

(* ------------------------------------------------------------------ DistributedRateLimiter *)
(** received = forwarded + dropped + suspended-at-a-store-access, per limiter instance, after any
    interleaving of handler starts and resumptions (generator handler: one step per resumption). *)
Theorem c10_distributed_conservation : forall limit es,
  let w := fst (dist_run limit dworld_init es) in
  forall l, (d_recv (w_lims w l) = d_fwd (w_lims w l) + d_drop (w_lims w l) + inflight w l)%Z.
Proof. exact (fun limit es => dist_conservation limit es dworld_init dinv_init). Qed.
Print Assumptions c10_distributed_conservation.

(* ------------------------------------------------------------------ side conditions hold in reachable states *)
(** The well-formedness side conditions of the time_until_available theorems are invariants of every
    run from the initial state (token bucket / adaptive: [tb_wf] via [tb_wf_ready]; fixed window:
    [fw_wf]; sliding window: the log never exceeds N). *)
Theorem c10_side_conditions_reachable :
  (forall (p : tbp Qops), 0 < tb_rate p -> 0 <= tb_cap p -> forall ops B s lo, tb_cap p <= B -> tb_wf B s lo -> nondecr lo ops ->
     forall now, (last_time lo ops <= now)%Z -> tb_ready (fst (run_count granted (tb_step Qops p) s ops)) now) /\
  (forall wn n, (1 <= wn)%Z -> (0 <= n)%Z -> forall ops s lo, fw_wf wn n s lo -> nondecr lo ops ->
     fw_wf wn n (fst (run_count granted (fw_step Qops wn n) s ops)) (last_time lo ops)) /\
  (forall wn n ops, (0 <= n)%Z -> forall log, (Z.of_nat (length log) <= n)%Z ->
     (Z.of_nat (length (fst (run_count granted (sw_step Qops wn n) log ops))) <= n)%Z).
Proof. exact side_conditions_reachable. Qed.
Print Assumptions c10_side_conditions_reachable.

(* ------------------------------------------------------------------ *)
(** * The policy bounds for the code as REGENERATED from policy.py on every run
    (Gen/PolicyGen.v, py2coq): the translated try_acquire / time_until_available,
    driven through any call sequence, never over-admit. *)
Theorem c10_code_token_bucket_bound : forall cap rate : Q, 0 < rate -> 0 <= cap ->
  forall init pre mid B, 0 <= init -> init <= B -> cap <= B -> sorted (pre ++ mid) ->
  let s0 := mkTokenBucketPolicy Qops cap rate init None in
  let s1 := fst (run_count granted (tb_code_step Qops) s0 pre) in
  inject_Z (snd (run_count granted (tb_code_step Qops) s1 mid)) <=
    B + rate * qsecs (match mid with [] => 0 | o :: r => last_time (time_of o) r - time_of o end)%Z.
Proof. exact tb_code_never_over_admits. Qed.
Print Assumptions c10_code_token_bucket_bound.

Theorem c10_code_leaky_spacing : forall rate iv ops last,
  spaced_from iv last (run_times (lk_code_step Qops) (mkLeakyBucketPolicy Qops rate iv last) ops).
Proof. exact lk_code_spacing. Qed.
Print Assumptions c10_code_leaky_spacing.

Theorem c10_code_sliding_window_bound : forall (ws : Q) n ops, (0 < n)%Z -> sorted ops ->
  windows_ok (nanos Qops ws) n [] (run_times (sw_code_step Qops) (mkSlidingWindowPolicy Qops ws n []) ops).
Proof. exact sw_code_never_over_admits. Qed.
Print Assumptions c10_code_sliding_window_bound.

Theorem c10_code_fixed_window_bound : forall (ws : Q) n, (1 <= nanos Qops ws)%Z -> (0 <= n)%Z -> forall ops k, sorted ops ->
  (Z.of_nat (length (filter (inw (nanos Qops ws) k)
     (run_times (fw_code_step Qops) (mkFixedWindowPolicy Qops n ws None 0) ops))) <= n)%Z.
Proof. exact fw_code_aligned_bound. Qed.
Print Assumptions c10_code_fixed_window_bound.

(** Every translated method IS the model function (any arithmetic [O], so also the binary64 instance). *)
Theorem c10_code_policies_refine_models : forall (O : numops),
  (forall s now, let r := TokenBucketPolicy_try_acquire O s now in
     (tb_abs O (fst r), snd r) = tb_acquire O (tb_par O s) (tb_abs O s) now /\ tb_par O (fst r) = tb_par O s) /\
  (forall s now, let r := TokenBucketPolicy_time_until_available O s now in
     (tb_abs O (fst r), snd r) = tb_tua O (tb_par O s) (tb_abs O s) now /\ tb_par O (fst r) = tb_par O s) /\
  (forall s now, let r := LeakyBucketPolicy_try_acquire O s now in
     (LeakyBucketPolicy__last_leak_time O (fst r), snd r)
       = lk_acquire O (LeakyBucketPolicy__leak_interval O s) (LeakyBucketPolicy__last_leak_time O s) now
     /\ LeakyBucketPolicy__leak_interval O (fst r) = LeakyBucketPolicy__leak_interval O s) /\
  (forall s now, LeakyBucketPolicy_time_until_available O s now
       = lk_tua O (LeakyBucketPolicy__leak_interval O s) (LeakyBucketPolicy__last_leak_time O s) now) /\
  (forall s now, let r := FixedWindowPolicy_try_acquire O s now in
     (fw_abs O (fst r), snd r) = fw_acquire (fw_wn O s) (FixedWindowPolicy__requests_per_window O s) (fw_abs O s) now
     /\ fw_cfg O (fst r) = fw_cfg O s) /\
  (forall s now, let r := FixedWindowPolicy_time_until_available O s now in
     (fw_abs O (fst r), snd r) = fw_tua O (fw_wn O s) (FixedWindowPolicy__requests_per_window O s) (fw_abs O s) now
     /\ fw_cfg O (fst r) = fw_cfg O s).
Proof.
  intros O. exact (conj (tie_tb_acquire O) (conj (tie_tb_tua O) (conj (tie_lk_acquire O) (conj (tie_lk_tua O)
          (conj (tie_fw_acquire O) (tie_fw_tua O)))))).
Qed.
Print Assumptions c10_code_policies_refine_models.

(** AdaptivePolicy's token part AS TRANSLATED (_refill / try_acquire / time_until_available, any
    arithmetic [O], so also the binary64 instance): each is the model function on the abstraction
    (rate, tokens, last refill) when the model's window parameter is the object's; for
    time_until_available under a positive rate — which the constructor (min_rate > 0) and the AIMD
    updates (never below min_rate) guarantee — and then for ANY value standing for float("inf"). *)
Theorem c10_code_adaptive_refines_model : forall (O : numops) (p : adp O) (s : AdaptivePolicy O) now inf,
  ad_win p = AdaptivePolicy__window_size O s ->
  (let s' := fst (AdaptivePolicy__refill O s now) in
   ad_abs O s' = ad_refill O p (ad_abs O s) now /\ AdaptivePolicy__window_size O s' = AdaptivePolicy__window_size O s)
  /\ (let r := AdaptivePolicy_try_acquire O s now in
      (ad_abs O (fst r), snd r) = ad_acquire O p (ad_abs O s) now
      /\ AdaptivePolicy__window_size O (fst r) = AdaptivePolicy__window_size O s)
  /\ (nlt O (n0 O) (AdaptivePolicy__current_rate O s) = true ->
      let r := AdaptivePolicy_time_until_available O s now inf in
      (ad_abs O (fst r), snd r) = ad_tua O p (ad_abs O s) now
      /\ AdaptivePolicy__window_size O (fst r) = AdaptivePolicy__window_size O s).
Proof.
  intros O p s now inf Hw.
  exact (conj (tie_ad_refill O p s now Hw) (conj (tie_ad_acquire O p s now Hw) (fun Hr => tie_ad_tua O p s now inf Hw Hr))).
Qed.
Print Assumptions c10_code_adaptive_refines_model.
