(** Property C10 — the theorems the check counts as obligations.  Nothing but
    statements closed by [exact] and [Print Assumptions].  All statements are
    about the exact-rational instance [Qops] of the generic policy code of
    C10/Model.v (the binary64 instance [Fops] of the same code is what the
    correspondence compares with /repo off the dyadic grid). *)
From HS Require Import Base.Prelude C10.Model C10.QFacts C10.TokenBucket.
From Coq Require Import QArith.
Local Open Scope Q_scope.

(** Token bucket never over-admits: in any stretch [mid] of any run with
    non-decreasing times, granted <= B + rate * (last - first) for every
    B >= capacity and >= initial tokens (B = capacity for the default bucket). *)
Theorem c10_token_bucket_bound : forall p : tbp Qops, 0 < tb_rate p -> 0 <= tb_cap p ->
  forall init pre mid B, 0 <= init -> init <= B -> tb_cap p <= B -> sorted (pre ++ mid) ->
  let s0 := Build_tbs Qops init None in
  let s1 := fst (run_count granted (tb_step Qops p) s0 pre) in
  inject_Z (snd (run_count granted (tb_step Qops p) s1 mid)) <=
    B + tb_rate p * qsecs (match mid with [] => 0 | o :: r => last_time (time_of o) r - time_of o end).
Proof. exact tb_never_over_admits. Qed.
Print Assumptions c10_token_bucket_bound.

(** time_until_available = 0  ==>  an immediate try_acquire succeeds. *)
Theorem c10_token_bucket_tua_zero : forall p : tbp Qops, 0 < tb_rate p -> forall s now s1,
  tb_tua Qops p s now = (s1, 0%Z) ->
  snd (tb_acquire Qops p s now) = true /\ snd (tb_acquire Qops p s1 now) = true.
Proof. exact tb_tua_zero_acquires. Qed.
Print Assumptions c10_token_bucket_tua_zero.

(** time_until_available = w > 0  ==>  no call sequence at times in [now, now+w) is granted anything. *)
Theorem c10_token_bucket_tua_blocks : forall p : tbp Qops, 0 < tb_rate p -> 0 <= tb_cap p ->
  forall s now s1 w ops, tb_ready s now -> tb_tua Qops p s now = (s1, w) -> (0 < w)%Z ->
  nondecr now ops -> (last_time now ops < now + w)%Z ->
  snd (run_count granted (tb_step Qops p) s1 ops) = 0%Z.
Proof. exact tb_tua_positive_blocks. Qed.
Print Assumptions c10_token_bucket_tua_blocks.

(** Following the returned waits reaches an instant with tua = 0 after at most two waits. *)
Theorem c10_token_bucket_progress : forall p : tbp Qops, 0 < tb_rate p -> 0 <= tb_cap p -> 1 <= tb_cap p ->
  forall s now, tb_ready s now ->
  let '(s1, w1) := tb_tua Qops p s now in
  let '(s2, w2) := tb_tua Qops p s1 (now + w1) in
  let '(s3, w3) := tb_tua Qops p s2 (now + w1 + w2) in
  w3 = 0%Z /\ (0 <= w1)%Z /\ (0 <= w2)%Z.
Proof. exact tb_tua_progress. Qed.
Print Assumptions c10_token_bucket_progress.
