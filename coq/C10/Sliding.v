(** Sliding window log (exact-rational instance; everything but the ns -> s -> ns
    round trip of time_until_available is integer arithmetic). *)
From HS Require Import Base.Prelude C10.Model C10.QFacts.
From Coq Require Import QArith.
Local Open Scope Z_scope.

Section SW.
  Variables wn n : Z.                  (* window in ns, max_requests *)
  Notation step := (sw_step Qops wn n).
  Notation acquire := (sw_acquire wn n).
  Notation tua := (sw_tua Qops wn n).

  Definition inwin (t x : Z) : bool := t - wn <=? x.

  Lemma prune_split c log : exists old, log = old ++ sw_prune c log /\ Forall (fun x => x < c) old.
  Proof.
    induction log as [|x r IH]; cbn; [exists []; auto|].
    destruct (Z.ltb_spec x c).
    - destruct IH as (old & E & F). exists (x :: old). split; [cbn; congruence|constructor; auto].
    - exists []. auto.
  Qed.

  Lemma filter_none c old : Forall (fun x => x < c) old -> filter (fun x => c <=? x) old = [].
  Proof.
    induction 1; cbn; auto. destruct (Z.leb_spec c x); [lia|auto].
  Qed.

  Lemma filter_length_le {A} (f : A -> bool) l : (length (filter f l) <= length l)%nat.
  Proof. induction l; cbn; [lia|]. destruct (f a); cbn; lia. Qed.

  Lemma prune_head c log : match sw_prune c log with [] => True | x :: _ => c <= x end.
  Proof. induction log as [|x r IH]; cbn; auto. destruct (Z.ltb_spec x c); auto. Qed.

  Lemma prune_id c log : match log with [] => True | x :: _ => c <= x end -> sw_prune c log = log.
  Proof. destruct log as [|x r]; cbn; auto. intros H. destruct (Z.ltb_spec x c); [lia|auto]. Qed.

  Lemma prune_idem c log : sw_prune c (sw_prune c log) = sw_prune c log.
  Proof. apply prune_id. apply prune_head. Qed.

  Lemma prune_length c log : (length (sw_prune c log) <= length log)%nat.
  Proof. induction log as [|x r IH]; cbn; auto. destruct (x <? c); cbn; lia. Qed.

  Lemma prune_drops c x r : x < c -> (length (sw_prune c (x :: r)) <= length r)%nat.
  Proof. intros H. cbn. destruct (Z.ltb_spec x c); [apply prune_length|lia]. Qed.

  Lemma tua_fst log t : fst (tua log t) = sw_prune (t - wn) log.
  Proof.
    unfold sw_tua. destruct (Z.of_nat (length (sw_prune (t - wn) log)) <? n); [reflexivity|].
    destruct (sw_prune (t - wn) log); reflexivity.
  Qed.

  (** Invariant: the granted times so far are [old ++ log] where everything in [old]
      is more than a window before [lo] (the earliest time of any later call). *)
  Definition sw_inv (gt log : list Z) (lo : Z) : Prop :=
    exists old, gt = old ++ log /\ Forall (fun x => x < lo - wn) old.

  Lemma inv_step gt log lo o : sw_inv gt log lo -> lo <= time_of o ->
    let '(log1, x) := step log o in
    let gt1 := gt ++ (if granted o x =? 1 then [time_of o] else []) in
    sw_inv gt1 log1 (time_of o) /\
    (granted o x = 1 -> (length (filter (inwin (time_of o)) gt) < Z.to_nat n)%nat).
  Proof.
    intros (old & E & F) Hlo.
    assert (F' : Forall (fun x => x < time_of o - wn) old).
    { eapply Forall_impl; [|exact F]. cbn. intros; lia. }
    destruct (prune_split (time_of o - wn) log) as (dr & Ed & Fd).
    assert (INV : sw_inv gt (sw_prune (time_of o - wn) log) (time_of o)).
    { exists (old ++ dr). split; [rewrite <- app_assoc, <- Ed; auto|apply Forall_app; auto]. }
    destruct o as [t|t]; cbn [sw_step granted time_of] in *.
    - unfold sw_acquire. destruct (Z.ltb_spec (Z.of_nat (length (sw_prune (t - wn) log))) n); cbn [b2z Z.eqb Pos.eqb].
      + split.
        * destruct INV as (o2 & E2 & F2). exists o2. split; [rewrite E2, app_assoc; auto|auto].
        * intros _. subst gt. rewrite Ed at 1. rewrite !filter_app.
          unfold inwin at 1 2. rewrite (filter_none _ _ F'), (filter_none _ _ Fd). cbn [app].
          pose proof (filter_length_le (inwin t) (sw_prune (t - wn) log)). lia.
      + rewrite app_nil_r. split; [exact INV|discriminate].
    - pose proof (tua_fst log t) as TF. destruct (tua log t) as [l1 x]. cbn [fst] in TF. subst l1.
      cbn [Z.eqb]. rewrite app_nil_r. split; [exact INV|discriminate].
  Qed.

  (** ** never more than N in any window that ends at a grant (hence in any window) *)
  Fixpoint windows_ok (seen rest : list Z) : Prop :=
    match rest with
    | [] => True
    | t :: r => (length (filter (inwin t) seen) + 1 <= Z.to_nat n)%nat /\ windows_ok (seen ++ [t]) r
    end.

  Lemma run_windows ops : forall gt log lo, sw_inv gt log lo -> nondecr lo ops ->
    windows_ok gt (run_times step log ops).
  Proof.
    induction ops as [|o r IH]; intros gt log lo Hinv Hnd; cbn [run_times]; [exact I|].
    destruct Hnd as [Hlo Hnd].
    pose proof (inv_step gt log lo o Hinv Hlo) as ST. destruct (step log o) as [log1 x].
    destruct ST as [I1 G1]. specialize (IH _ _ _ I1 Hnd).
    destruct (granted o x =? 1) eqn:EG.
    - cbn [app windows_ok]. split; [apply Z.eqb_eq in EG; specialize (G1 EG); lia|exact IH].
    - cbn [app]. rewrite app_nil_r in IH. exact IH.
  Qed.

  Theorem sw_never_over_admits ops : sorted ops -> windows_ok [] (run_times step [] ops).
  Proof.
    intros Hs. destruct ops as [|o r]; [exact I|].
    apply (run_windows (o :: r) [] [] (time_of o)).
    - exists []. auto.
    - cbn. split; [lia|exact Hs].
  Qed.

  (** ... in the usual form: at most N grants in ANY closed window [a, a + w]. *)
  Lemma windows_ok_app a : forall seen b,
    windows_ok seen (a ++ b) <-> windows_ok seen a /\ windows_ok (seen ++ a) b.
  Proof.
    induction a as [|t a IH]; intros seen b; cbn [app windows_ok]; [rewrite app_nil_r; tauto|].
    rewrite IH. rewrite <- app_assoc. cbn [app]. tauto.
  Qed.

  Definition in_range (a x : Z) : bool := (a <=? x) && (x <=? a + wn).

  Lemma range_le_inwin a t l : t <= a + wn ->
    (length (filter (in_range a) l) <= length (filter (inwin t) l))%nat.
  Proof.
    intros Ht. induction l as [|x l IH]; cbn [filter]; [lia|].
    unfold in_range at 1, inwin at 1.
    destruct (Z.leb_spec a x), (Z.leb_spec x (a + wn)), (Z.leb_spec (t - wn) x); cbn [andb length]; lia.
  Qed.

  Lemma windows_any ts a : 0 <= n -> windows_ok [] ts ->
    (length (filter (in_range a) ts) <= Z.to_nat n)%nat.
  Proof.
    intros Hn. induction ts as [|t ts IH] using rev_ind; [cbn; lia|].
    intros H. apply windows_ok_app in H. destruct H as [H1 H2]. cbn [app windows_ok] in H2. destruct H2 as [H2 _].
    rewrite filter_app, app_length. cbn [filter]. unfold in_range at 2.
    destruct (Z.leb_spec a t), (Z.leb_spec t (a + wn)); cbn [andb length]; try (specialize (IH H1); lia).
    pose proof (range_le_inwin a t ts ltac:(lia)). lia.
  Qed.

  Theorem sw_any_window ops a : 0 <= n -> sorted ops ->
    (length (filter (in_range a) (run_times step [] ops)) <= Z.to_nat n)%nat.
  Proof. intros Hn Hs. apply windows_any; auto. apply sw_never_over_admits; auto. Qed.

  (** ** time_until_available *)
  Theorem sw_tua_zero_acquires log now log1 : tua log now = (log1, 0) ->
    snd (acquire log now) = true /\ snd (acquire log1 now) = true.
  Proof.
    unfold sw_tua, sw_acquire.
    destruct (Z.ltb_spec (Z.of_nat (length (sw_prune (now - wn) log))) n) as [L|L].
    - intros E. inversion E; subst. rewrite prune_idem.
      destruct (Z.ltb_spec (Z.of_nat (length (sw_prune (now - wn) log))) n); [auto|lia].
    - destruct (sw_prune (now - wn) log) as [|x r]; intros E; inversion E.
      cbn [secs nanos Qops] in *. rewrite qnanos_qsecs in H1. unfold guard in H1.
      destruct (Z.eqb_spec (x + wn - now) 0); lia.
  Qed.

  (** A full log whose oldest entry has not yet left the window. *)
  Definition sw_full (log : list Z) (D : Z) : Prop :=
    n <= Z.of_nat (length log) /\ match log with [] => True | x :: _ => D - wn <= x + 1 end.

  Lemma full_step log D o : sw_full log D -> time_of o < D -> step log o = (log, match o with Acq _ => 0 | Tua t => snd (tua log t) end).
  Proof.
    intros [L H] Ht.
    assert (P : sw_prune (time_of o - wn) log = log) by (apply prune_id; destruct log; auto; lia).
    destruct o as [t|t]; cbn [sw_step time_of] in *.
    - unfold sw_acquire. rewrite P. destruct (Z.ltb_spec (Z.of_nat (length log)) n); [lia|reflexivity].
    - unfold sw_tua. rewrite P. destruct (Z.ltb_spec (Z.of_nat (length log)) n); [lia|]. destruct log; reflexivity.
  Qed.

  Theorem sw_tua_positive_blocks log now log1 w ops :
    tua log now = (log1, w) -> 0 < w -> Forall (fun o => time_of o < now + w) ops ->
    snd (run_count granted step log1 ops) = 0.
  Proof.
    intros E Hw HF.
    assert (FULL : sw_full log1 (now + w)).
    { unfold sw_tua in E. pose proof (prune_head (now - wn) log) as PH.
      destruct (Z.ltb_spec (Z.of_nat (length (sw_prune (now - wn) log))) n) as [L|L]; [inversion E; lia|].
      destruct (sw_prune (now - wn) log) as [|x r] eqn:EP; inversion E; subst; [lia|].
      split; [exact L|]. cbn [secs nanos Qops]. rewrite qnanos_qsecs. unfold guard.
      destruct (Z.eqb_spec (x + wn - now) 0); lia. }
    clear E. induction ops as [|o r IH]; [reflexivity|]. inversion HF as [|? ? Ho Hr]; subst.
    cbn [run_count]. rewrite (full_step log1 (now + w) o FULL Ho). specialize (IH Hr).
    destruct (run_count granted step log1 r) as [s2 k]. cbn [snd] in *. destruct o; cbn [granted]; lia.
  Qed.

  (** Progress (needs N >= 1, a window of at least 0 ns, and a log that never exceeds N,
      which holds in every reachable state). *)
  Hypothesis n_pos : 1 <= n.

  Theorem sw_tua_progress log now : Z.of_nat (length log) <= n ->
    let '(l1, w1) := tua log now in
    let '(l2, w2) := tua l1 (now + w1) in
    let '(l3, w3) := tua l2 (now + w1 + w2) in
    w3 = 0 /\ 0 <= w1 /\ 0 <= w2.
  Proof.
    intros Hlen.
    assert (FREE : forall lg t, Z.of_nat (length lg) < n -> tua lg t = (sw_prune (t - wn) lg, 0)).
    { intros lg t H. unfold sw_tua. pose proof (prune_length (t - wn) lg).
      destruct (Z.ltb_spec (Z.of_nat (length (sw_prune (t - wn) lg))) n); [reflexivity|lia]. }
    assert (GONE : forall x r t, x + wn < t -> Z.of_nat (length (x :: r)) <= n ->
              forall t', snd (tua (sw_prune (t - wn) (x :: r)) t') = 0).
    { intros x r t Hx Hl t'. pose proof (prune_drops (t - wn) x r ltac:(lia)). cbn [length] in Hl.
      rewrite FREE; [reflexivity|lia]. }
    unfold sw_tua at 1. pose proof (prune_head (now - wn) log) as PH. pose proof (prune_length (now - wn) log) as PL.
    destruct (Z.ltb_spec (Z.of_nat (length (sw_prune (now - wn) log))) n) as [L|L].
    - rewrite Z.add_0_r, (FREE _ now L), Z.add_0_r, FREE; [lia|].
      pose proof (prune_length (now - wn) (sw_prune (now - wn) log)). lia.
    - destruct (sw_prune (now - wn) log) as [|x r] eqn:EP; [cbn in L; lia|].
      cbn [secs nanos Qops]. rewrite qnanos_qsecs.
      assert (Lxr : Z.of_nat (length (x :: r)) <= n) by lia.
      set (w1 := guard (x + wn - now)).
      assert (W1 : 0 < w1) by (apply guard_pos; lia).
      assert (P1 : sw_prune (now + w1 - wn) (x :: r) = sw_prune (now + w1 - wn) (x :: r)) by reflexivity.
      destruct (Z_lt_le_dec (x + wn) (now + w1)) as [A|A].
      + (* the head leaves the window after the first wait *)
        unfold sw_tua at 1. 
        pose proof (prune_drops (now + w1 - wn) x r ltac:(lia)) as PD. cbn [length] in Lxr.
        destruct (Z.ltb_spec (Z.of_nat (length (sw_prune (now + w1 - wn) (x :: r)))) n); [|lia].
        rewrite Z.add_0_r. pose proof (GONE x r (now + w1) A ltac:(cbn [length]; lia) (now + w1)) as G0.
        destruct (tua (sw_prune (now + w1 - wn) (x :: r)) (now + w1)) as [l3 w3]. cbn [snd] in G0. lia.
      + (* w1 = x + wn - now > 0: at now + w1 = x + wn the head is still inside (closed window): one more ns *)
        assert (E1 : w1 = x + wn - now).
        { unfold w1, guard in *. destruct (Z.eqb_spec (x + wn - now) 0); lia. }
        assert (PI : sw_prune (now + w1 - wn) (x :: r) = x :: r) by (apply prune_id; lia).
        unfold sw_tua at 1. rewrite PI.
        destruct (Z.ltb_spec (Z.of_nat (length (x :: r))) n); [lia|].
        cbn [secs nanos Qops]. rewrite qnanos_qsecs.
        replace (x + wn - (now + w1)) with 0 by lia. cbn [guard Z.eqb].
        pose proof (GONE x r (now + w1 + 1) ltac:(lia) Lxr (now + w1 + 1)) as G0.
        unfold sw_tua at 1.
        pose proof (prune_drops (now + w1 + 1 - wn) x r ltac:(lia)) as PD. cbn [length] in Lxr.
        destruct (Z.ltb_spec (Z.of_nat (length (sw_prune (now + w1 + 1 - wn) (x :: r)))) n); [lia|lia].
  Qed.
End SW.

(** The side condition of [sw_tua_progress] holds in every reachable state. *)
Lemma sw_len_step wn n log o : (0 <= n)%Z -> (Z.of_nat (length log) <= n)%Z ->
  (Z.of_nat (length (fst (sw_step Qops wn n log o))) <= n)%Z.
Proof.
  intros Hn H. pose proof (prune_length (time_of o - wn) log) as PL.
  destruct o as [t|t]; cbn [sw_step time_of] in *.
  - unfold sw_acquire. destruct (Z.ltb_spec (Z.of_nat (length (sw_prune (t - wn) log))) n); cbn [fst]; [|lia].
    rewrite app_length. cbn [length]. lia.
  - rewrite tua_fst. lia.
Qed.

Theorem sw_len_reachable wn n ops : (0 <= n)%Z -> forall log, (Z.of_nat (length log) <= n)%Z ->
  (Z.of_nat (length (fst (run_count granted (sw_step Qops wn n) log ops))) <= n)%Z.
Proof.
  intros Hn. induction ops as [|o r IH]; intros log H; cbn [run_count]; [exact H|].
  pose proof (sw_len_step wn n log o Hn H) as H1. destruct (sw_step Qops wn n log o) as [l1 x]. cbn [fst] in H1.
  specialize (IH l1 H1). destruct (run_count granted (sw_step Qops wn n) l1 r) as [l2 k]. exact IH.
Qed.

Example sw_example :
  run_times (sw_step Qops 1000 2) [] [Acq 0; Acq 0; Acq 5; Acq 1000; Acq 1001; Acq 1001] = [0; 0; 1001; 1001] /\
  snd (sw_tua Qops 1000 2 [0; 5] 5) = 995 /\ snd (sw_tua Qops 1000 2 [0; 5] 1000) = 1.
Proof. vm_compute. repeat split; congruence. Qed.
