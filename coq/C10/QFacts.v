(** Facts about the exact-rational instance [Qops] of C10/Model.v. *)
From HS Require Import Base.Prelude C10.Model.
From Coq Require Import QArith Qround Lqa.
Local Open Scope Q_scope.

Lemma Qle_bool_false x y : Qle_bool x y = false <-> y < x.
Proof.
  split; intros H.
  - apply Qnot_le_lt. intros C. apply Qle_bool_iff in C. congruence.
  - destruct (Qle_bool x y) eqn:E; auto. apply Qle_bool_iff in E. lra.
Qed.

(** Decide a [Qle_bool] test and put the fact in the context. *)
Ltac qcase a b :=
  let E := fresh "E" in
  destruct (Qle_bool a b) eqn:E;
  [apply Qle_bool_iff in E | apply Qle_bool_false in E].

Lemma nmin_q a b : (b < a /\ nmin Qops a b = b) \/ (a <= b /\ nmin Qops a b = a).
Proof.
  unfold nmin; cbn. qcase a b; cbn; [right|left]; auto.
Qed.
Lemma nmax_q a b : (a < b /\ nmax Qops a b = b) \/ (b <= a /\ nmax Qops a b = a).
Proof.
  unfold nmax; cbn. qcase b a; cbn; [right|left]; auto.
Qed.

Lemma qsecs_inj d : qsecs d == inject_Z d * (1 # 1000000000).
Proof. unfold qsecs, inject_Z, Qeq, Qmult; cbn. lia. Qed.

Lemma inject_Z_minus a b : inject_Z (a - b) = inject_Z a - inject_Z b.
Proof. unfold Z.sub. rewrite inject_Z_plus, inject_Z_opp. reflexivity. Qed.

Lemma qsecs_split a b c : qsecs (c - a) == qsecs (b - a) + qsecs (c - b).
Proof. rewrite !qsecs_inj, !inject_Z_minus. lra. Qed.

Lemma qsecs_0 : qsecs 0 == 0.
Proof. reflexivity. Qed.

Lemma qsecs_le0 d : qsecs d <= 0 <-> (d <= 0)%Z.
Proof. unfold qsecs, Qle; cbn. lia. Qed.
Lemma qsecs_nonneg d : (0 <= d)%Z -> 0 <= qsecs d.
Proof. unfold qsecs, Qle; cbn. lia. Qed.
Lemma qsecs_pos d : (0 < d)%Z -> 0 < qsecs d.
Proof. unfold qsecs, Qlt; cbn. lia. Qed.
Lemma qsecs_mono a b : (a <= b)%Z -> qsecs a <= qsecs b.
Proof. unfold qsecs, Qle; cbn. lia. Qed.

(** [qnanos] on non-negative arguments is the floor of [x * 1e9]. *)
Lemma qnanos_nonneg x : 0 <= x -> qnanos x = Qfloor (x * G).
Proof.
  intros H. unfold qnanos.
  assert (0 <= x * G) by (unfold G; apply Qmult_le_0_compat; [auto|lra]).
  apply Qle_bool_iff in H0. rewrite H0. reflexivity.
Qed.
Lemma qnanos_le x : 0 <= x -> inject_Z (qnanos x) <= x * G.
Proof. intros H. rewrite qnanos_nonneg by auto. apply Qfloor_le. Qed.
Lemma qnanos_gt x : 0 <= x -> x * G < inject_Z (qnanos x) + 1.
Proof.
  intros H. rewrite qnanos_nonneg by auto.
  pose proof (Qlt_floor (x * G)). rewrite inject_Z_plus in H0. exact H0.
Qed.
Lemma qnanos_ge0 x : 0 <= x -> (0 <= qnanos x)%Z.
Proof.
  intros H. rewrite qnanos_nonneg by auto.
  assert (0 <= x * G) by (unfold G; apply Qmult_le_0_compat; [auto|lra]).
  change 0%Z with (Qfloor 0). apply Qfloor_resp_le. auto.
Qed.

(** The ns -> seconds -> ns round trip is exact in the rational instance. *)
Lemma qnanos_qsecs d : qnanos (qsecs d) = d.
Proof.
  assert (E : qsecs d * G == inject_Z d) by (rewrite qsecs_inj; unfold G; field).
  unfold qnanos. cbv zeta.
  destruct (Qle_bool 0 (qsecs d * G)).
  - rewrite (Qfloor_comp _ _ E). apply Qfloor_Z.
  - rewrite (Qceiling_comp _ _ E). apply Qceiling_Z.
Qed.

Lemma guard_pos w : (0 <= w)%Z -> (0 < guard w)%Z.
Proof. unfold guard. destruct (Z.eqb_spec w 0); lia. Qed.
Lemma guard_cases w : (w = 0%Z /\ guard w = 1%Z) \/ (w <> 0%Z /\ guard w = w).
Proof. unfold guard. destruct (Z.eqb_spec w 0); auto. Qed.

(** Operation sequences with non-decreasing times (simulation time never goes back). *)
Local Open Scope Z_scope.
Fixpoint nondecr (l : Z) (ops : list pop) : Prop :=
  match ops with [] => True | o :: r => l <= time_of o /\ nondecr (time_of o) r end.
Fixpoint last_time (l : Z) (ops : list pop) : Z :=
  match ops with [] => l | o :: r => last_time (time_of o) r end.
Definition sorted (ops : list pop) : Prop :=
  match ops with [] => True | o :: r => nondecr (time_of o) r end.

Lemma nondecr_app l a b : nondecr l (a ++ b) <-> nondecr l a /\ nondecr (last_time l a) b.
Proof.
  revert l; induction a as [|o a IH]; intros l; cbn; [tauto|]. rewrite IH. tauto.
Qed.
Lemma last_time_ge l ops : nondecr l ops -> l <= last_time l ops.
Proof.
  revert l; induction ops as [|o r IH]; intros l; cbn; [lia|]. intros [H1 H2]. specialize (IH _ H2). lia.
Qed.
Lemma nondecr_weaken l l' ops : l' <= l -> nondecr l ops -> nondecr l' ops.
Proof. destruct ops; cbn; [auto|]. intros ? [? ?]; split; [lia|auto]. Qed.
Lemma inject_b2z b : inject_Z (b2z b) = if b then 1%Q else 0%Q.
Proof. destruct b; reflexivity. Qed.
