(** Adaptive (AIMD) policy, exact-rational instance: the rate stays in [min, max]; the
    bucket bound holds for the largest admissible rate; between feedback calls the
    policy IS a token bucket with capacity rate*window, so the time_until_available
    theorems transfer from C10/TokenBucket.v. *)
From HS Require Import Base.Prelude C10.Model C10.QFacts C10.TokenBucket.
From Coq Require Import QArith Qround Lqa.
Local Open Scope Q_scope.

Definition tbp_of (p : adp Qops) (s : ads Qops) : tbp Qops := Build_tbp Qops (ad_rate s * ad_win p) (ad_rate s).
Definition tbs_of (s : ads Qops) : tbs Qops := Build_tbs Qops (ad_tokens s) (ad_last s).

Section AD.
  Variable p : adp Qops.
  Implicit Types s : ads Qops.
  Notation refill := (ad_refill Qops p).
  Notation acquire := (ad_acquire Qops p).
  Notation tua := (ad_tua Qops p).
  Notation step := (ad_step Qops p).

  (** ** simulation by the token bucket *)
  Lemma sim_refill s now :
    tbs_of (refill s now) = tb_refill Qops (tbp_of p s) (tbs_of s) now /\ ad_rate (refill s now) = ad_rate s.
  Proof.
    unfold ad_refill, tb_refill, tbs_of, tbp_of. cbn [tb_last tb_tokens tb_cap tb_rate].
    destruct (ad_last s) eqn:EL; [destruct (nle Qops _ _)|]; cbn; rewrite ?EL; auto.
  Qed.

  Lemma sim_acquire s now :
    tb_acquire Qops (tbp_of p s) (tbs_of s) now = (tbs_of (fst (acquire s now)), snd (acquire s now)) /\
    ad_rate (fst (acquire s now)) = ad_rate s.
  Proof.
    unfold ad_acquire, tb_acquire. destruct (sim_refill s now) as [E R]. rewrite <- E.
    unfold tbs_of at 1 2 3. cbn [tb_tokens tb_last].
    destruct (nle Qops (n1 Qops) (ad_tokens (refill s now))); cbn; auto.
  Qed.

  Lemma sim_tua s now :
    tb_tua Qops (tbp_of p s) (tbs_of s) now = (tbs_of (fst (tua s now)), snd (tua s now)) /\
    ad_rate (fst (tua s now)) = ad_rate s.
  Proof.
    unfold ad_tua, tb_tua. destruct (sim_refill s now) as [E R]. rewrite <- E.
    unfold tbs_of at 1 2 3. cbn [tb_tokens tb_last tb_rate tbp_of].
    destruct (nle Qops (n1 Qops) (ad_tokens (refill s now))); cbn [fst snd]; rewrite ?R; auto.
  Qed.

  Lemma sim_step s o :
    tb_step Qops (tbp_of p s) (tbs_of s) o = (tbs_of (fst (step s (ACall o))), snd (step s (ACall o))) /\
    ad_rate (fst (step s (ACall o))) = ad_rate s.
  Proof.
    destruct o as [t|t]; cbn [tb_step ad_step].
    - destruct (sim_acquire s t) as [E R]. rewrite E. destruct (acquire s t); cbn; auto.
    - destruct (sim_tua s t) as [E R]. rewrite E. destruct (tua s t); cbn; auto.
  Qed.

  Lemma sim_run ops : forall s,
    snd (run_count agranted step s (map ACall ops)) =
    snd (run_count granted (tb_step Qops (tbp_of p s)) (tbs_of s) ops).
  Proof.
    induction ops as [|o r IH]; intros s; cbn [map run_count]; [reflexivity|].
    destruct (sim_step s o) as [E R]. rewrite E. destruct (step s (ACall o)) as [s1 x]. cbn [fst snd] in *.
    specialize (IH s1). assert (EP : tbp_of p s1 = tbp_of p s) by (unfold tbp_of; rewrite R; reflexivity).
    rewrite EP in IH.
    destruct (run_count agranted step s1 (map ACall r)) as [s2 k].
    destruct (run_count granted (tb_step Qops (tbp_of p s)) (tbs_of s1) r) as [s3 k']. cbn [snd] in *.
    cbn [agranted]. congruence.
  Qed.

  (** ** time_until_available (no feedback between the calls involved) *)
  Theorem ad_tua_zero_acquires s now s1 : 0 < ad_rate s -> tua s now = (s1, 0%Z) ->
    snd (acquire s now) = true /\ snd (acquire s1 now) = true.
  Proof.
    intros HR H. destruct (sim_tua s now) as [E R]. rewrite H in E, R. cbn [fst snd] in E, R.
    destruct (tb_tua_zero_acquires (tbp_of p s) HR _ _ _ E) as [A B].
    destruct (sim_acquire s now) as [E1 _]. rewrite E1 in A. cbn [snd] in A. split; [exact A|].
    destruct (sim_acquire s1 now) as [E2 _].
    assert (EP : tbp_of p s1 = tbp_of p s) by (unfold tbp_of; rewrite R; reflexivity).
    rewrite EP in E2. rewrite E2 in B. exact B.
  Qed.

  Theorem ad_tua_positive_blocks s now s1 w ops :
    0 < ad_rate s -> 0 <= ad_win p -> tb_ready (tbs_of s) now -> tua s now = (s1, w) -> (0 < w)%Z ->
    nondecr now ops -> (last_time now ops < now + w)%Z ->
    snd (run_count agranted step s1 (map ACall ops)) = 0%Z.
  Proof.
    intros HR HW Hr H Hw Hnd HD. destruct (sim_tua s now) as [E R]. rewrite H in E, R. cbn [fst snd] in E, R.
    rewrite sim_run.
    assert (EP : tbp_of p s1 = tbp_of p s) by (unfold tbp_of; rewrite R; reflexivity). rewrite EP.
    apply (tb_tua_positive_blocks (tbp_of p s) HR ltac:(cbn; apply Qmult_le_0_compat; lra) _ now _ w ops Hr E Hw Hnd HD).
  Qed.

  Theorem ad_tua_progress s now : 0 < ad_rate s -> 1 <= ad_rate s * ad_win p -> tb_ready (tbs_of s) now ->
    let '(s1, w1) := tua s now in
    let '(s2, w2) := tua s1 (now + w1) in
    let '(s3, w3) := tua s2 (now + w1 + w2) in
    w3 = 0%Z /\ (0 <= w1)%Z /\ (0 <= w2)%Z.
  Proof.
    intros HR HC Hr.
    pose proof (tb_tua_progress (tbp_of p s) HR ltac:(cbn; lra) HC (tbs_of s) now Hr) as P.
    destruct (sim_tua s now) as [E1 R1]. rewrite E1 in P. destruct (tua s now) as [s1 w1]. cbn [fst snd] in *.
    assert (EP1 : tbp_of p s1 = tbp_of p s) by (unfold tbp_of; rewrite R1; reflexivity).
    destruct (sim_tua s1 (now + w1)) as [E2 R2]. rewrite EP1 in E2. rewrite E2 in P.
    destruct (tua s1 (now + w1)) as [s2 w2]. cbn [fst snd] in *.
    assert (EP2 : tbp_of p s2 = tbp_of p s) by (unfold tbp_of; rewrite R2, R1; reflexivity).
    destruct (sim_tua s2 (now + w1 + w2)) as [E3 R3]. rewrite EP2 in E3. rewrite E3 in P.
    destruct (tua s2 (now + w1 + w2)) as [s3 w3]. cbn [fst snd] in *. exact P.
  Qed.

  (** ** the rate stays within [min, max] under every call/feedback sequence *)
  Hypothesis min_pos : 0 < ad_min p.
  Hypothesis min_le_max : ad_min p <= ad_max p.
  Hypothesis inc_nonneg : 0 <= ad_inc p.
  Hypothesis dec_range : 0 < ad_dec p /\ ad_dec p <= 1.
  Hypothesis win_nonneg : 0 <= ad_win p.

  Definition rate_ok s : Prop := ad_min p <= ad_rate s /\ ad_rate s <= ad_max p.

  Lemma step_rate s o : rate_ok s -> rate_ok (fst (step s o)).
  Proof.
    intros [A B]. destruct o as [o|t|t].
    - destruct (sim_step s o) as [_ R]. unfold rate_ok. rewrite R. auto.
    - cbn [ad_step fst]. unfold rate_ok, ad_success. cbn [ad_rate]. qsimp.
      destruct (nmin_q (ad_max p) (ad_rate s + ad_inc p)) as [[C ->]|[C ->]]; split; lra.
    - cbn [ad_step fst]. unfold rate_ok, ad_failure. cbn [ad_rate]. qsimp.
      assert (ad_rate s * ad_dec p <= ad_rate s).
      { destruct dec_range. assert (ad_rate s * ad_dec p <= ad_rate s * 1) by (apply Qmult_le_l; lra). lra. }
      destruct (nmax_q (ad_min p) (ad_rate s * ad_dec p)) as [[C ->]|[C ->]]; split; lra.
  Qed.

  Theorem ad_rate_within_bounds ops : forall s, rate_ok s -> rate_ok (fst (run_count agranted step s ops)).
  Proof.
    induction ops as [|o r IH]; intros s H; cbn [run_count]; [exact H|].
    pose proof (step_rate s o H) as H1. destruct (step s o) as [s1 x]. cbn [fst] in H1.
    specialize (IH s1 H1). destruct (run_count agranted step s1 r) as [s2 k]. exact IH.
  Qed.

  (** ** bucket bound w.r.t. the largest admissible rate R = max_rate:
      granted in any stretch <= R*window + R*(last - first). *)
  Notation R := (ad_max p).
  Notation B := (ad_max p * ad_win p).

  Definition ad_wf s (lo : Z) : Prop :=
    rate_ok s /\ 0 <= ad_tokens s /\ ad_tokens s <= B /\
    match ad_last s with None => True | Some l => (l <= lo)%Z end.

  Lemma refill_bound s now lo : ad_wf s lo -> (lo <= now)%Z ->
    let s' := refill s now in
    rate_ok s' /\ ad_last s' = Some now /\ 0 <= ad_tokens s' /\ ad_tokens s' <= B /\
    (forall l, ad_last s = Some l -> ad_tokens s' <= ad_tokens s + R * qsecs (now - l)).
  Proof.
    intros ([A1 A2] & H0 & HB & Hl) Hlo. unfold ad_refill. destruct (ad_last s) as [l|] eqn:El; qsimp.
    - qcase (qsecs (now - l)) 0; cbv zeta.
      + apply (proj1 (qsecs_le0 _)) in E. assert (now = l) by lia. subst now.
        rewrite El. repeat split; auto. intros l' E'. inversion E'; subst l'. rewrite Z.sub_diag.
        setoid_replace (qsecs 0) with 0 by reflexivity. lra.
      + cbn [ad_rate ad_tokens ad_last].
        assert (RW : ad_rate s * ad_win p <= B) by (apply Qmult_le_compat_r; auto).
        assert (EL : qsecs (now - l) * ad_rate s <= R * qsecs (now - l)).
        { rewrite (Qmult_comm R). apply Qmult_le_l; auto. }
        assert (0 <= qsecs (now - l) * ad_rate s) by (apply Qmult_le_0_compat; lra).
        assert (0 <= ad_rate s * ad_win p) by (apply Qmult_le_0_compat; lra).
        destruct (nmin_q (ad_rate s * ad_win p) (ad_tokens s + qsecs (now - l) * ad_rate s)) as [[C ->]|[C ->]];
          repeat split; auto; try lra; intros l' E'; inversion E'; subst l'; lra.
    - cbn [ad_rate ad_tokens ad_last]. repeat split; auto. discriminate.
  Qed.

  Lemma step_bound s o lo : ad_wf s lo -> (lo <= atime_of o)%Z ->
    let '(s1, x) := step s o in
    ad_wf s1 (atime_of o) /\ inject_Z (agranted o x) + ad_tokens s1 <= B /\
    (ad_last s1 = Some (atime_of o) \/ (agranted o x = 0%Z /\ ad_tokens s1 = ad_tokens s /\ ad_last s1 = ad_last s)) /\
    (forall l, ad_last s = Some l -> inject_Z (agranted o x) + ad_tokens s1 <= ad_tokens s + R * qsecs (atime_of o - l)).
  Proof.
    intros Hwf Hlo. pose proof Hwf as (RK & H0 & HB & Hl).
    assert (QN : forall l, ad_last s = Some l -> 0 <= R * qsecs (atime_of o - l)).
    { intros l E. rewrite E in Hl. apply Qmult_le_0_compat; [destruct RK; lra|apply qsecs_nonneg; lia]. }
    destruct o as [[t|t]|t|t]; cbn [ad_step atime_of agranted granted time_of] in *.
    - destruct (refill_bound s t lo Hwf Hlo) as (K1 & K2 & K3 & K4 & K5). unfold ad_acquire. qsimp.
      qcase 1 (ad_tokens (refill s t)); cbn [b2z]; unfold ad_wf; cbn [ad_rate ad_tokens ad_last]; rewrite ?K2.
      + change (inject_Z 1) with 1. repeat split; try (destruct K1; auto; fail); try lra; try lia; auto.
        intros l El. specialize (K5 l El). lra.
      + change (inject_Z 0) with 0. repeat split; try (destruct K1; auto; fail); try lra; try lia; auto.
        intros l El. specialize (K5 l El). lra.
    - destruct (refill_bound s t lo Hwf Hlo) as (K1 & K2 & K3 & K4 & K5). unfold ad_tua. qsimp.
      qcase 1 (ad_tokens (refill s t)); unfold ad_wf; rewrite ?K2; change (inject_Z 0) with 0;
        (repeat split; try (destruct K1; auto; fail); try lra; try lia; auto; intros l El; specialize (K5 l El); lra).
    - pose proof (step_rate s (RecS t) RK) as RK1. cbn [ad_step fst] in RK1.
      unfold ad_wf. cbn [ad_success ad_rate ad_tokens ad_last] in *. change (inject_Z 0) with 0.
      repeat split; try (destruct RK1; auto; fail); try lra; auto.
      + destruct (ad_last s); auto; lia.
      + intros l El. specialize (QN l El). lra.
    - pose proof (step_rate s (RecF t) RK) as RK1. cbn [ad_step fst] in RK1.
      unfold ad_wf. cbn [ad_failure ad_rate ad_tokens ad_last] in *. change (inject_Z 0) with 0.
      repeat split; try (destruct RK1; auto; fail); try lra; auto.
      + destruct (ad_last s); auto; lia.
      + intros l El. specialize (QN l El). lra.
  Qed.

  Fixpoint anondecr (l : Z) (ops : list aop) : Prop :=
    match ops with [] => True | o :: r => (l <= atime_of o)%Z /\ anondecr (atime_of o) r end.
  Fixpoint alast_time (l : Z) (ops : list aop) : Z :=
    match ops with [] => l | o :: r => alast_time (atime_of o) r end.
  Definition asorted (ops : list aop) : Prop :=
    match ops with [] => True | o :: r => anondecr (atime_of o) r end.

  Lemma anondecr_app l a b : anondecr l (a ++ b) <-> anondecr l a /\ anondecr (alast_time l a) b.
  Proof. revert l; induction a as [|o a IH]; intros l; cbn; [tauto|]. rewrite IH. tauto. Qed.
  Lemma alast_time_ge l ops : anondecr l ops -> (l <= alast_time l ops)%Z.
  Proof. revert l; induction ops as [|o r IH]; intros l; cbn; [lia|]. intros [H1 H2]. specialize (IH _ H2). lia. Qed.

  Notation count := (run_count agranted step).

  Lemma ad_wf_run ops : forall s lo, ad_wf s lo -> anondecr lo ops -> ad_wf (fst (count s ops)) (alast_time lo ops).
  Proof.
    induction ops as [|o r IH]; intros s lo Hwf Hnd; cbn [run_count alast_time]; [exact Hwf|].
    destruct Hnd as [Hlo Hnd]. pose proof (step_bound s o lo Hwf Hlo) as SB.
    destruct (step s o) as [s1 x]. destruct SB as (W1 & _). specialize (IH s1 _ W1 Hnd).
    destruct (count s1 r) as [s2 k]. exact IH.
  Qed.

  (** From a state last refilled at [l] (tokens T): granted + tokens' <= T + R * elapsed. *)
  Lemma ad_run_bound ops : forall s l lo, ad_wf s lo -> ad_last s = Some l -> (l <= lo)%Z -> anondecr lo ops ->
    let '(s', k) := count s ops in
    0 <= ad_tokens s' /\ inject_Z k + ad_tokens s' <= ad_tokens s + R * qsecs (alast_time lo ops - l).
  Proof.
    induction ops as [|o r IH]; intros s l lo Hwf Hl Hll Hnd; cbn [run_count alast_time].
    - change (inject_Z 0) with 0. assert (0 <= R * qsecs (lo - l)).
      { apply Qmult_le_0_compat; [destruct Hwf as ([? ?] & _); lra|apply qsecs_nonneg; lia]. }
      destruct Hwf as (_ & ? & _). split; lra.
    - destruct Hnd as [Hlo Hnd]. pose proof (step_bound s o lo Hwf Hlo) as SB.
      destruct (step s o) as [s1 x]. destruct SB as (W1 & _ & SL & ST).
      specialize (ST l Hl).
      pose proof (alast_time_ge _ _ Hnd) as LG.
      destruct SL as [L1|(G0 & T0 & L1)].
      + specialize (IH s1 (atime_of o) (atime_of o) W1 L1 ltac:(lia) Hnd).
        destruct (count s1 r) as [s2 k]. rewrite inject_Z_plus. destruct IH as [I0 IH]. split; [auto|].
        pose proof (qsecs_split l (atime_of o) (alast_time (atime_of o) r)) as SP. rewrite SP. lra.
      + rewrite Hl in L1. specialize (IH s1 l (atime_of o) W1 L1 ltac:(lia) Hnd).
        destruct (count s1 r) as [s2 k]. rewrite inject_Z_plus, G0. change (inject_Z 0) with 0. rewrite T0 in IH.
        destruct IH as [I0 IH]. split; [auto|lra].
  Qed.

  Lemma ad_wf_weaken s lo lo' : ad_wf s lo -> (lo <= lo')%Z -> ad_wf s lo'.
  Proof.
    intros (A & B0 & C & D) H. unfold ad_wf. split; [exact A|]. split; [exact B0|]. split; [exact C|].
    destruct (ad_last s); auto; lia.
  Qed.

  Lemma ad_window ops : forall s lo, ad_wf s lo -> anondecr lo ops ->
    inject_Z (snd (count s ops)) <= B + R * qsecs (alast_time lo ops - lo).
  Proof.
    induction ops as [|o r IH]; intros s lo Hwf Hnd; cbn [run_count alast_time].
    - cbn [snd]. change (inject_Z 0) with 0. rewrite Z.sub_diag. setoid_replace (qsecs 0) with 0 by reflexivity.
      assert (0 <= B) by (destruct Hwf as ([? ?] & _); apply Qmult_le_0_compat; lra). lra.
    - destruct Hnd as [Hlo Hnd]. pose proof (step_bound s o lo Hwf Hlo) as SB.
      destruct (step s o) as [s1 x]. destruct SB as (W1 & SB & SL & _).
      pose proof (alast_time_ge _ _ Hnd) as LG.
      assert (RP : 0 <= R) by (destruct Hwf as ([? ?] & _); lra).
      assert (MONO : R * qsecs (alast_time (atime_of o) r - atime_of o) <= R * qsecs (alast_time (atime_of o) r - lo)).
      { rewrite !(Qmult_comm R). apply Qmult_le_compat_r; [apply qsecs_mono; lia|auto]. }
      destruct SL as [L1|(G0 & T0 & L1)].
      + pose proof (ad_run_bound r s1 (atime_of o) (atime_of o) W1 L1 ltac:(lia) Hnd) as RB.
        destruct (count s1 r) as [s2 k]. cbn [snd]. rewrite inject_Z_plus. destruct RB as [R0 RB]. lra.
      + specialize (IH s1 (atime_of o) W1 Hnd). destruct (count s1 r) as [s2 k]. cbn [snd] in *.
        rewrite inject_Z_plus, G0. change (inject_Z 0) with 0. lra.
  Qed.

  Theorem ad_never_over_admits s0 pre mid :
    rate_ok s0 -> ad_tokens s0 == ad_rate s0 * ad_win p -> ad_last s0 = None -> asorted (pre ++ mid) ->
    let s1 := fst (count s0 pre) in
    inject_Z (snd (count s1 mid)) <=
      B + R * qsecs (match mid with [] => 0 | o :: r => alast_time (atime_of o) r - atime_of o end).
  Proof.
    intros RK HT HL Hs s1. destruct mid as [|o r].
    - cbn [run_count snd]. setoid_replace (qsecs 0) with 0 by reflexivity. change (inject_Z 0) with 0.
      assert (0 <= B) by (destruct RK; apply Qmult_le_0_compat; lra). lra.
    - set (lo := match pre with [] => atime_of o | o' :: _ => atime_of o' end).
      assert (Hnd : anondecr lo (pre ++ o :: r)).
      { unfold lo. destruct pre as [|o' pre']; cbn in Hs |- *; (split; [lia|auto]). }
      apply anondecr_app in Hnd. destruct Hnd as [Hp Hm].
      assert (W0 : ad_wf s0 lo).
      { destruct RK as [K1 K2]. unfold ad_wf, rate_ok. rewrite HL, HT. repeat split; auto.
        - apply Qmult_le_0_compat; lra.
        - apply Qmult_le_compat_r; auto. }
      pose proof (ad_wf_run pre s0 lo W0 Hp) as W1. fold s1 in W1.
      destruct Hm as [Hlo Hm].
      pose proof (ad_window (o :: r) s1 (atime_of o) (ad_wf_weaken _ _ _ W1 Hlo)) as AW.
      cbn [anondecr alast_time] in AW. apply AW. split; [lia|exact Hm].
  Qed.
End AD.

(** The hypotheses are satisfiable and the statements non-vacuous: min 1, max 4, step 1, factor 1/2,
    window 1 s, start rate 2 (2 tokens): two grants, a denial, feedback moves the rate within [1, 4]. *)
Example ad_example :
  let p := Build_adp Qops 1 4 1 (1 # 2) 1 in
  let s0 := Build_ads Qops 2 2 None in
  (0 < ad_min p /\ ad_min p <= ad_max p /\ 0 <= ad_inc p /\ (0 < ad_dec p /\ ad_dec p <= 1) /\ 0 <= ad_win p) /\
  rate_ok p s0 /\ ad_tokens s0 == ad_rate s0 * ad_win p /\
  snd (run_count agranted (ad_step Qops p) s0 [ACall (Acq 0); ACall (Acq 0); ACall (Acq 0); RecS 0; RecF 0; ACall (Acq 1000000000)]) = 3%Z /\
  snd (ad_tua Qops p (Build_ads Qops 2 0 (Some 0%Z)) 0) = 500000000%Z.
Proof. vm_compute. repeat split; congruence. Qed.
