(** The side conditions of the time_until_available theorems are invariants of every run. *)
From HS Require Import Base.Prelude C10.Model C10.QFacts C10.TokenBucket C10.Sliding C10.Fixed.
From Coq Require Import QArith.
Local Open Scope Q_scope.

Lemma side_conditions_reachable :
  (forall (p : tbp Qops), 0 < tb_rate p -> 0 <= tb_cap p -> forall ops B s lo, tb_cap p <= B -> tb_wf B s lo -> nondecr lo ops ->
     forall now, (last_time lo ops <= now)%Z -> tb_ready (fst (run_count granted (tb_step Qops p) s ops)) now) /\
  (forall wn n, (1 <= wn)%Z -> (0 <= n)%Z -> forall ops s lo, fw_wf wn n s lo -> nondecr lo ops ->
     fw_wf wn n (fst (run_count granted (fw_step Qops wn n) s ops)) (last_time lo ops)) /\
  (forall wn n ops, (0 <= n)%Z -> forall log, (Z.of_nat (length log) <= n)%Z ->
     (Z.of_nat (length (fst (run_count granted (sw_step Qops wn n) log ops))) <= n)%Z).
Proof.
  split; [|split].
  - intros p Hr Hc ops B s lo HB Hwf Hnd now Hn.
    exact (tb_wf_ready p B _ _ now (wf_run p Hr Hc ops B s lo HB Hwf Hnd) Hn).
  - exact fw_wf_reachable.
  - exact sw_len_reachable.
Qed.
