(** Leaky bucket (exact-rational instance). *)
From HS Require Import Base.Prelude C10.Model C10.QFacts.
From Coq Require Import QArith Qround Lqa.
Local Open Scope Q_scope.

Ltac qsimp := cbn [num nadd nsub nmul ndiv nle nlt neqb n0 n1 secs nanos Qops] in *.

(** Adjacent elements of [l :: ts] are at least [iv] seconds apart. *)
Fixpoint spaced (iv : Q) (l : Z) (ts : list Z) : Prop :=
  match ts with [] => True | t :: r => iv <= qsecs (t - l) /\ spaced iv t r end.
Definition spaced_from (iv : Q) (s : option Z) (ts : list Z) : Prop :=
  match s with Some l => spaced iv l ts | None => match ts with [] => True | t :: r => spaced iv t r end end.

Section LK.
  Variable iv : Q.                     (* 1 / leak_rate *)
  Hypothesis iv_pos : 0 < iv.
  Notation step := (lk_step Qops iv).
  Notation tua := (lk_tua Qops iv).
  Notation acquire := (lk_acquire Qops iv).

  (** ** spacing: consecutive granted acquires are >= 1/rate apart, in every run *)
  Theorem lk_spacing ops : forall s, spaced_from iv s (run_times step s ops).
  Proof.
    induction ops as [|o r IH]; intros s; cbn [run_times]; [destruct s; exact I|].
    destruct o as [t|t]; cbn [lk_step granted time_of].
    - unfold lk_acquire. destruct s as [l|]; qsimp.
      + qcase iv (qsecs (t - l)); cbn [b2z Z.eqb Pos.eqb app].
        * specialize (IH (Some t)). cbn in IH |- *. auto.
        * apply (IH (Some l)).
      + cbn [b2z Z.eqb Pos.eqb app]. specialize (IH (Some t)). cbn in IH |- *. exact IH.
    - cbn [Z.eqb app]. apply IH.
  Qed.

  (** ** time_until_available *)
  Theorem lk_tua_zero_acquires s now : tua s now = 0%Z -> snd (acquire s now) = true.
  Proof.
    unfold lk_tua, lk_acquire. destruct s as [l|]; qsimp; [|reflexivity].
    qcase (iv - qsecs (now - l)) 0.
    - intros _. assert (H : iv <= qsecs (now - l)) by lra. apply Qle_bool_iff in H. rewrite H. reflexivity.
    - intros H. exfalso. assert (0 <= iv - qsecs (now - l)) by lra.
      pose proof (guard_pos _ (qnanos_ge0 _ H0)). lia.
  Qed.

  (** Seconds still needed at time [t] for a bucket that last leaked at [l]. *)
  Definition need (l t : Z) : Q := iv - qsecs (t - l).

  Lemma need_shift l t d : need l (t + d) == need l t - qsecs d.
  Proof. unfold need. rewrite !qsecs_inj, !inject_Z_minus, inject_Z_plus. lra. Qed.

  Lemma tua_need l t : tua (Some l) t = if Qle_bool (need l t) 0 then 0%Z else guard (qnanos (need l t)).
  Proof. reflexivity. Qed.

  Lemma acquire_need l t : 0 < need l t -> acquire (Some l) t = (Some l, false).
  Proof.
    intros H. unfold lk_acquire, need in *. qsimp. qcase iv (qsecs (t - l)); [lra|reflexivity].
  Qed.

  Lemma wait_blocks l now t : 0 < need l now -> (t < now + guard (qnanos (need l now)))%Z -> 0 < need l t.
  Proof.
    intros Hn Ht. assert (H0 : 0 <= need l now) by lra.
    pose proof (qnanos_le _ H0) as QL. unfold G in QL.
    replace t with (now + (t - now))%Z by lia. rewrite need_shift.
    destruct (guard_cases (qnanos (need l now))) as [[Z0 E]|[NZ E]]; rewrite E in Ht.
    - assert (qsecs (t - now) <= qsecs 0) by (apply qsecs_mono; lia).
      setoid_replace (qsecs 0) with 0 in H by reflexivity. lra.
    - assert (qsecs (t - now) <= qsecs (qnanos (need l now) - 1)) by (apply qsecs_mono; lia).
      rewrite (qsecs_inj (qnanos (need l now) - 1)), inject_Z_minus in H. change (inject_Z 1) with 1 in H. lra.
  Qed.

  (** tua = w > 0: nothing is granted by any call sequence whose times are all before now + w. *)
  Theorem lk_tua_positive_blocks s now ops :
    (0 < tua s now)%Z -> Forall (fun o => (time_of o < now + tua s now)%Z) ops ->
    snd (run_count granted step s ops) = 0%Z.
  Proof.
    destruct s as [l|]; [|cbn; lia]. rewrite tua_need.
    qcase (need l now) 0; [lia|]. intros _ HF.
    induction ops as [|o r IH]; [reflexivity|]. inversion HF as [|? ? Ho Hr]; subst.
    cbn [run_count]. pose proof (wait_blocks l now (time_of o) E Ho) as Hn.
    destruct o as [t|t]; cbn [lk_step granted time_of] in *.
    - rewrite (acquire_need l t Hn). cbn [b2z]. specialize (IH Hr).
      destruct (run_count granted step (Some l) r) as [s2 n]. cbn [snd] in *. lia.
    - specialize (IH Hr). destruct (run_count granted step (Some l) r) as [s2 n]. cbn [snd] in *. lia.
  Qed.

  (** Following the returned waits reaches tua = 0 after at most two waits. *)
  Theorem lk_tua_progress s now :
    let w1 := tua s now in let w2 := tua s (now + w1) in let w3 := tua s (now + w1 + w2) in
    w3 = 0%Z /\ (0 <= w1)%Z /\ (0 <= w2)%Z.
  Proof.
    destruct s as [l|]; [|cbn; lia]. cbv zeta.
    assert (NN : forall t, (0 <= tua (Some l) t)%Z).
    { intros t. rewrite tua_need. qcase (need l t) 0; [lia|]. assert (0 <= need l t) by lra.
      pose proof (guard_pos _ (qnanos_ge0 _ H)). lia. }
    assert (Z : forall t, need l t <= 0 -> tua (Some l) t = 0%Z).
    { intros t H. rewrite tua_need. apply Qle_bool_iff in H. rewrite H. reflexivity. }
    assert (ONE : forall t, 0 < need l t -> need l t * G < 1 -> tua (Some l) t = 1%Z /\ need l (t + 1) <= 0).
    { intros t H1 H2. split.
      - rewrite tua_need. apply Qle_bool_false in H1. rewrite H1.
        assert (H0 : 0 <= need l t) by (apply Qle_bool_false in H1; lra).
        pose proof (qnanos_le _ H0). pose proof (qnanos_ge0 _ H0).
        assert (inject_Z (qnanos (need l t)) < inject_Z 1) by (change (inject_Z 1) with 1; lra).
        rewrite <- Zlt_Qlt in H4. replace (qnanos (need l t)) with 0%Z by lia. reflexivity.
      - rewrite need_shift. rewrite qsecs_inj. change (inject_Z 1) with 1. unfold G in H2. lra. }
    split; [|split; apply NN].
    destruct (Qlt_le_dec 0 (need l now)) as [P|NP].
    2:{ rewrite (Z now NP). rewrite Z.add_0_r, (Z now NP), Z.add_0_r. apply Z; auto. }
    assert (H0 : 0 <= need l now) by lra.
    pose proof (qnanos_le _ H0) as QL. pose proof (qnanos_gt _ H0) as QG. pose proof (qnanos_ge0 _ H0) as QN.
    rewrite (tua_need l now). pose proof P as P'. apply Qle_bool_false in P'. rewrite P'.
    destruct (guard_cases (qnanos (need l now))) as [[Z0 E]|[NZ E]]; rewrite E.
    - rewrite Z0 in QG. change (inject_Z 0) with 0 in QG.
      destruct (ONE now P ltac:(lra)) as [_ N1]. rewrite (Z _ N1), Z.add_0_r. apply Z; auto.
    - set (w := qnanos (need l now)) in *.
      assert (N2 : need l (now + w) * G < 1 /\ 0 <= need l (now + w)).
      { rewrite need_shift, qsecs_inj. unfold G in *. split; lra. }
      destruct N2 as [N2 N3].
      destruct (Qlt_le_dec 0 (need l (now + w))) as [P2|NP2].
      + destruct (ONE (now + w)%Z P2 N2) as [E1 N1]. rewrite E1. apply Z; auto.
      + rewrite (Z _ NP2), Z.add_0_r. apply Z; auto.
  Qed.
End LK.

Example lk_example :
  0 < lk_interval Qops 4 /\
  run_times (lk_step Qops (lk_interval Qops 4)) None [Acq 0; Acq 100; Acq 250000000; Acq 250000001] = [0; 250000000]%Z /\
  lk_tua Qops (lk_interval Qops 4) (Some 0%Z) 100 = 249999900%Z.
Proof. vm_compute. repeat split; congruence. Qed.
