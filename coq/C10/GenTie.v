(** C10 — tie between policy.py and the hand-written policy models, through
    the REGENERATED translation [Gen/PolicyGen.v] (py2coq).  Generic over the
    arithmetic [O : numops], so each lemma holds both for the exact-rational
    instance the theorems are about and for the binary64 instance the
    correspondence uses.  Constructors are not translated: the configuration
    fields ([_capacity], [_refill_rate], [_leak_interval], [_window_size],
    [_max_requests], [_requests_per_window]) are read-only in every translated
    method, which the lemmas state. *)
From HS Require Import Base.Prelude Base.PyLib C10.Model Gen.PolicyGen.
Local Open Scope Z_scope.

Section Tie.
  Variable O : numops.

  (* ---------------------------------------------------------------- *)
  (** ** TokenBucketPolicy *)
  Definition tb_par (s : TokenBucketPolicy O) : tbp O :=
    {| tb_cap := TokenBucketPolicy__capacity O s; tb_rate := TokenBucketPolicy__refill_rate O s |}.
  Definition tb_abs (s : TokenBucketPolicy O) : tbs O :=
    {| tb_tokens := TokenBucketPolicy__tokens O s; tb_last := TokenBucketPolicy__last_refill_time O s |}.

  Lemma tie_tb_refill s now :
    let s' := fst (TokenBucketPolicy__refill O s now) in
    tb_abs s' = tb_refill O (tb_par s) (tb_abs s) now /\ tb_par s' = tb_par s.
  Proof.
    unfold TokenBucketPolicy__refill, tb_refill, tb_abs, tb_par. destruct s as [cap rate tok [l|]]; cbn.
    - destruct (nle O (secs O (now - l)) (n0 O)); cbn; split; reflexivity.
    - split; reflexivity.
  Qed.

  Lemma tie_tb_acquire s now :
    let r := TokenBucketPolicy_try_acquire O s now in
    (tb_abs (fst r), snd r) = tb_acquire O (tb_par s) (tb_abs s) now /\ tb_par (fst r) = tb_par s.
  Proof.
    unfold TokenBucketPolicy_try_acquire, tb_acquire. destruct (tie_tb_refill s now) as [H1 H2].
    destruct (TokenBucketPolicy__refill O s now) as [s1 u]; cbn [fst snd] in *. rewrite <- H1.
    unfold tb_abs at 2 3; cbn [tb_tokens].
    destruct (nle O (n1 O) (TokenBucketPolicy__tokens O s1)); cbn; split; try reflexivity; exact H2.
  Qed.

  Lemma tie_tb_tua s now :
    let r := TokenBucketPolicy_time_until_available O s now in
    (tb_abs (fst r), snd r) = tb_tua O (tb_par s) (tb_abs s) now /\ tb_par (fst r) = tb_par s.
  Proof.
    unfold TokenBucketPolicy_time_until_available, tb_tua, guard. destruct (tie_tb_refill s now) as [H1 H2].
    destruct (TokenBucketPolicy__refill O s now) as [s1 u]; cbn [fst snd] in *. rewrite <- H1.
    unfold tb_abs at 2 3; cbn [tb_tokens].
    assert (Hr : tb_rate (tb_par s) = TokenBucketPolicy__refill_rate O s1) by (rewrite <- H2; reflexivity).
    rewrite Hr.
    destruct (nle O (n1 O) (TokenBucketPolicy__tokens O s1)); cbn; [split; [reflexivity|exact H2]|].
    destruct (nanos O _ =? 0); cbn; split; try reflexivity; exact H2.
  Qed.

  (* ---------------------------------------------------------------- *)
  (** ** LeakyBucketPolicy: the model's state is [_last_leak_time], its
      parameter the interval [_leak_interval] (= [1.0 / leak_rate], constructor). *)
  Lemma tie_lk_acquire s now :
    let r := LeakyBucketPolicy_try_acquire O s now in
    (LeakyBucketPolicy__last_leak_time O (fst r), snd r)
      = lk_acquire O (LeakyBucketPolicy__leak_interval O s) (LeakyBucketPolicy__last_leak_time O s) now
    /\ LeakyBucketPolicy__leak_interval O (fst r) = LeakyBucketPolicy__leak_interval O s.
  Proof.
    unfold LeakyBucketPolicy_try_acquire, lk_acquire. destruct s as [rate iv [l|]]; cbn; [|split; reflexivity].
    destruct (nle O iv (secs O (now - l))); cbn; split; reflexivity.
  Qed.

  Lemma tie_lk_tua s now :
    LeakyBucketPolicy_time_until_available O s now
      = lk_tua O (LeakyBucketPolicy__leak_interval O s) (LeakyBucketPolicy__last_leak_time O s) now.
  Proof.
    unfold LeakyBucketPolicy_time_until_available, lk_tua, guard. destruct s as [rate iv [l|]]; cbn; [|reflexivity].
    destruct (nle O (nsub O iv (secs O (now - l))) (n0 O)); reflexivity.
  Qed.

  (* ---------------------------------------------------------------- *)
  (** ** SlidingWindowPolicy: [wn] = [nanos window_size] is what [Instant -/+ float] moves by. *)
  Lemma dropwhile_prune c l : py_dropwhile (fun x => x <? c) l = sw_prune c l.
  Proof. induction l as [|x r IH]; cbn; [reflexivity|]. destruct (x <? c); [exact IH|reflexivity]. Qed.

  Definition sw_wn (s : SlidingWindowPolicy O) : Z := nanos O (SlidingWindowPolicy__window_size O s).

  Lemma tie_sw_acquire s now :
    let r := SlidingWindowPolicy_try_acquire O s now in
    (SlidingWindowPolicy__request_log O (fst r), snd r)
      = sw_acquire (sw_wn s) (SlidingWindowPolicy__max_requests O s) (SlidingWindowPolicy__request_log O s) now
    /\ sw_wn (fst r) = sw_wn s
    /\ SlidingWindowPolicy__max_requests O (fst r) = SlidingWindowPolicy__max_requests O s.
  Proof.
    unfold SlidingWindowPolicy_try_acquire, SlidingWindowPolicy__prune, sw_acquire, sw_wn.
    destruct s as [ws n log]; cbn. rewrite dropwhile_prune.
    tie_split; tie_close.
  Qed.

  (** [time_until_available]: reading [self._request_log[0]] raises IndexError on an empty log
      (only possible with [max_requests <= 0]): the translation returns [None] there, the model [-1]. *)
  Lemma tie_sw_tua s now : 0 < SlidingWindowPolicy__max_requests O s ->
    exists r, SlidingWindowPolicy_time_until_available O s now = Some r /\
    (SlidingWindowPolicy__request_log O (fst r), snd r)
      = sw_tua O (sw_wn s) (SlidingWindowPolicy__max_requests O s) (SlidingWindowPolicy__request_log O s) now
    /\ sw_wn (fst r) = sw_wn s
    /\ SlidingWindowPolicy__max_requests O (fst r) = SlidingWindowPolicy__max_requests O s.
  Proof.
    unfold SlidingWindowPolicy_time_until_available, SlidingWindowPolicy__prune, sw_tua, sw_wn, guard.
    destruct s as [ws n log]; cbn. intros Hn. rewrite dropwhile_prune.
    destruct (sw_prune (now - nanos O ws) log) as [|oldest rest] eqn:El; cbn in *;
      tie_split; try (exfalso; lia); cbn; eexists; repeat split; first [reflexivity | (exfalso; lia) | lia].
  Qed.

  (* ---------------------------------------------------------------- *)
  (** ** FixedWindowPolicy *)
  Definition fw_wn (s : FixedWindowPolicy O) : Z := nanos O (FixedWindowPolicy__window_size O s).
  Definition fw_abs (s : FixedWindowPolicy O) : fws :=
    {| fw_start := FixedWindowPolicy__current_window_start O s; fw_count := FixedWindowPolicy__current_window_count O s |}.
  Definition fw_cfg (s : FixedWindowPolicy O) := (fw_wn s, FixedWindowPolicy__requests_per_window O s).

  Lemma tie_fw_window_start s now :
    FixedWindowPolicy__get_window_start O s now = fw_window_start (fw_wn s) now.
  Proof.
    first [reflexivity
          | unfold FixedWindowPolicy__get_window_start, fw_window_start, fw_wn; cbv beta zeta; tie_split;
            first [rewrite Z.max_l by lia | rewrite Z.max_r by lia | idtac]; ring].
  Qed.

  Lemma tie_fw_reset s now :
    let s' := fst (FixedWindowPolicy__maybe_reset O s now) in
    fw_abs s' = fw_reset (fw_wn s) (fw_abs s) now /\ fw_cfg s' = fw_cfg s.
  Proof.
    destruct s as [n ws [c|] cnt];
      match goal with |- context [FixedWindowPolicy__maybe_reset O ?s0 now] => pose proof (tie_fw_window_start s0 now) as Hws end;
      unfold FixedWindowPolicy__maybe_reset, fw_reset, fw_abs, fw_cfg; cbv beta zeta; rewrite Hws;
      unfold fw_wn; cbn -[fw_window_start]; [|split; reflexivity].
    tie_split; tie_close.
  Qed.

  Lemma tie_fw_acquire s now :
    let r := FixedWindowPolicy_try_acquire O s now in
    (fw_abs (fst r), snd r) = fw_acquire (fw_wn s) (FixedWindowPolicy__requests_per_window O s) (fw_abs s) now
    /\ fw_cfg (fst r) = fw_cfg s.
  Proof.
    unfold FixedWindowPolicy_try_acquire, fw_acquire. destruct (tie_fw_reset s now) as [H1 H2].
    destruct (FixedWindowPolicy__maybe_reset O s now) as [s1 u]; cbn [fst snd] in *. rewrite <- H1.
    assert (Hn : FixedWindowPolicy__requests_per_window O s1 = FixedWindowPolicy__requests_per_window O s)
      by (unfold fw_cfg in H2; congruence).
    rewrite Hn. unfold fw_abs at 2 3; cbn [fw_count].
    destruct (FixedWindowPolicy__current_window_count O s1 <? FixedWindowPolicy__requests_per_window O s); cbn;
      split; try reflexivity; exact H2.
  Qed.

  Lemma tie_fw_tua s now :
    let r := FixedWindowPolicy_time_until_available O s now in
    (fw_abs (fst r), snd r) = fw_tua O (fw_wn s) (FixedWindowPolicy__requests_per_window O s) (fw_abs s) now
    /\ fw_cfg (fst r) = fw_cfg s.
  Proof.
    unfold FixedWindowPolicy_time_until_available, fw_tua, guard. destruct (tie_fw_reset s now) as [H1 H2].
    destruct (FixedWindowPolicy__maybe_reset O s now) as [s1 u]; cbn [fst snd] in *. rewrite <- H1.
    assert (Hn : FixedWindowPolicy__requests_per_window O s1 = FixedWindowPolicy__requests_per_window O s)
      by (unfold fw_cfg in H2; congruence).
    assert (Hw : nanos O (FixedWindowPolicy__window_size O s1) = fw_wn s)
      by (unfold fw_cfg, fw_wn in H2; unfold fw_wn; congruence).
    rewrite Hn, Hw. unfold fw_abs at 2 3 4; cbn [fw_count fw_start].
    destruct (FixedWindowPolicy__current_window_count O s1 <? FixedWindowPolicy__requests_per_window O s); cbn;
      [split; [reflexivity|exact H2]|].
    destruct (FixedWindowPolicy__current_window_start O s1) as [c|]; cbn; [|split; [reflexivity|exact H2]].
    destruct (nle O (secs O (c + fw_wn s - now)) (n0 O)); cbn; [split; [reflexivity|exact H2]|].
    destruct (nanos O (secs O (c + fw_wn s - now)) =? 0); cbn; split; try reflexivity; exact H2.
  Qed.

  (* ---------------- AdaptivePolicy (the token part: _refill / try_acquire / time_until_available) ---------------- *)
  Definition ad_abs (s : AdaptivePolicy O) : ads O :=
    {| ad_rate := AdaptivePolicy__current_rate O s; ad_tokens := AdaptivePolicy__tokens O s;
       ad_last := AdaptivePolicy__last_refill_time O s |}.

  Lemma tie_ad_refill (p : adp O) s now : ad_win p = AdaptivePolicy__window_size O s ->
    let s' := fst (AdaptivePolicy__refill O s now) in
    ad_abs s' = ad_refill O p (ad_abs s) now /\ AdaptivePolicy__window_size O s' = AdaptivePolicy__window_size O s.
  Proof.
    intros Hw. unfold AdaptivePolicy__refill, ad_refill, ad_abs. destruct s as [rate win tok [l|]]; cbn in *.
    - destruct (nle O (secs O (now - l)) (n0 O)); cbn; split; try reflexivity. now rewrite Hw.
    - split; reflexivity.
  Qed.

  Lemma tie_ad_acquire (p : adp O) s now : ad_win p = AdaptivePolicy__window_size O s ->
    let r := AdaptivePolicy_try_acquire O s now in
    (ad_abs (fst r), snd r) = ad_acquire O p (ad_abs s) now
    /\ AdaptivePolicy__window_size O (fst r) = AdaptivePolicy__window_size O s.
  Proof.
    intros Hw. unfold AdaptivePolicy_try_acquire, ad_acquire. destruct (tie_ad_refill p s now Hw) as [H1 H2].
    destruct (AdaptivePolicy__refill O s now) as [s1 u]; cbn [fst snd] in *. rewrite <- H1.
    unfold ad_abs at 2 3; cbn [ad_tokens].
    destruct (nle O (n1 O) (AdaptivePolicy__tokens O s1)); cbn; split; try reflexivity; exact H2.
  Qed.

  (** [time_until_available]: the code divides by the rate only when it is positive and otherwise uses
      float("inf") (the extra parameter [inf]); the constructor guarantees min_rate > 0 and every rate
      adjustment stays >= min_rate, so under a positive rate after the refill the value of [inf] is irrelevant. *)
  Lemma tie_ad_tua (p : adp O) s now inf : ad_win p = AdaptivePolicy__window_size O s ->
    nlt O (n0 O) (AdaptivePolicy__current_rate O s) = true ->
    let r := AdaptivePolicy_time_until_available O s now inf in
    (ad_abs (fst r), snd r) = ad_tua O p (ad_abs s) now
    /\ AdaptivePolicy__window_size O (fst r) = AdaptivePolicy__window_size O s.
  Proof.
    intros Hw Hr. unfold AdaptivePolicy_time_until_available, ad_tua, guard. destruct (tie_ad_refill p s now Hw) as [H1 H2].
    assert (Hrate : AdaptivePolicy__current_rate O (fst (AdaptivePolicy__refill O s now)) = AdaptivePolicy__current_rate O s).
    { unfold AdaptivePolicy__refill. destruct s as [rate win tok [l|]]; cbn; [destruct (nle O _ _); reflexivity|reflexivity]. }
    destruct (AdaptivePolicy__refill O s now) as [s1 u]; cbn [fst snd] in *. rewrite <- H1.
    unfold ad_abs at 2 3 4; cbn [ad_tokens ad_rate].
    destruct (nle O (n1 O) (AdaptivePolicy__tokens O s1)); cbn; [split; [reflexivity|exact H2]|].
    rewrite Hrate, Hr.
    destruct (nanos O _ =? 0); cbn; (split; [unfold ad_abs; rewrite ?Hrate; reflexivity|exact H2]).
  Qed.

End Tie.
