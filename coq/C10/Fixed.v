(** Fixed window counter (window start in integer ns — the repaired code). *)
From HS Require Import Base.Prelude C10.Model C10.QFacts.
From Coq Require Import QArith.
Local Open Scope Z_scope.

Section FW.
  Variables wn n : Z.
  Hypothesis wn_pos : 1 <= wn.
  Hypothesis n_nonneg : 0 <= n.
  Notation W := (Z.max 1 wn).
  Notation step := (fw_step Qops wn n).
  Notation acquire := (fw_acquire wn n).
  Notation tua := (fw_tua Qops wn n).
  Notation wstart := (fw_window_start wn).

  Definition win_of (t : Z) : Z := t / W.
  Definition inw (k t : Z) : bool := win_of t =? k.

  Lemma W_eq : W = wn. Proof. lia. Qed.
  Lemma wstart_spec t : wstart t = win_of t * wn /\ wstart t <= t < wstart t + wn.
  Proof.
    unfold fw_window_start, win_of. rewrite W_eq. split; [reflexivity|].
    pose proof (Z.div_mod t wn ltac:(lia)). pose proof (Z.mod_pos_bound t wn ltac:(lia)). lia.
  Qed.
  Lemma win_mono a b : a <= b -> win_of a <= win_of b.
  Proof. unfold win_of. rewrite W_eq. intros. apply Z.div_le_mono; lia. Qed.
  Lemma wstart_mono a b : a <= b -> wstart a <= wstart b.
  Proof. intros H. destruct (wstart_spec a) as [-> _], (wstart_spec b) as [-> _]. pose proof (win_mono a b H). nia. Qed.

  (** Well-formed state for calls at times >= lo: the recorded window start is the start
      of window [k <= win_of lo], and the count is within [0, n]. *)
  Definition fw_wf (s : fws) (lo : Z) : Prop :=
    0 <= fw_count s <= n /\
    match fw_start s with None => fw_count s = 0 | Some c => exists k, c = k * wn /\ k <= win_of lo end.

  Definition cur_win (s : fws) : option Z :=
    match fw_start s with None => None | Some c => Some (c / wn) end.

  Lemma reset_spec s lo t : fw_wf s lo -> lo <= t ->
    let s1 := fw_reset wn s t in
    fw_start s1 = Some (win_of t * wn) /\ 0 <= fw_count s1 <= n /\
    ((cur_win s = Some (win_of t) /\ s1 = s) \/ (cur_win s <> Some (win_of t) /\ fw_count s1 = 0 /\
       match cur_win s with Some k => k < win_of t | None => True end)).
  Proof.
    intros [Hc Hs] Hlo. unfold fw_reset, cur_win in *. destruct (wstart_spec t) as [E _]. rewrite E.
    destruct (fw_start s) as [c|] eqn:Es.
    - destruct Hs as (k & -> & Hk). pose proof (win_mono lo t Hlo).
      rewrite Z.div_mul by lia.
      destruct (Z.ltb_spec (k * wn) (win_of t * wn)); cbn [fw_start fw_count].
      + split; [auto|]. split; [lia|]. right. split; [intros X; inversion X; nia|]. split; [auto|nia].
      + assert (k = win_of t) by nia. subst k. rewrite Es. split; [auto|]. split; [auto|]. left; auto.
    - cbn [fw_start fw_count]. split; [auto|]. split; [lia|]. right. split; [discriminate|auto].
  Qed.

  (** ** at most N grants per aligned window *)
  Definition budget (s : fws) (k : Z) : Z :=
    match cur_win s with Some k' => if k' =? k then n - fw_count s else n | None => n end.

  Lemma times_ge ops : forall s lo, nondecr lo ops -> Forall (fun t => lo <= t) (run_times step s ops).
  Proof.
    induction ops as [|o r IH]; intros s lo Hnd; cbn [run_times]; [constructor|].
    destruct Hnd as [Hlo Hnd]. destruct (step s o) as [s1 x].
    apply Forall_app. split.
    - destruct (granted o x =? 1); constructor; auto.
    - eapply Forall_impl; [|apply (IH s1 _ Hnd)]. cbn. intros; lia.
  Qed.

  Lemma count_none k ts lo : Forall (fun t => lo <= t) ts -> k < win_of lo -> filter (inw k) ts = [].
  Proof.
    induction 1; cbn; auto. intros Hk. unfold inw at 1. pose proof (win_mono lo x H).
    destruct (Z.eqb_spec (win_of x) k); [lia|auto].
  Qed.

  Lemma run_budget ops : forall s lo k, fw_wf s lo -> nondecr lo ops ->
    Z.of_nat (length (filter (inw k) (run_times step s ops))) <= budget s k.
  Proof.
    induction ops as [|o r IH]; intros s lo k Hwf Hnd; cbn [run_times].
    - cbn. unfold budget. destruct Hwf as [Hc _]. destruct (cur_win s); [destruct (_ =? _)|]; lia.
    - destruct Hnd as [Hlo Hnd]. set (t := time_of o) in *.
      destruct (reset_spec s lo t Hwf Hlo) as (R1 & R2 & R3).
      assert (STEP : exists s1 x, step s o = (s1, x) /\ fw_start s1 = Some (win_of t * wn) /\
                (granted o x = 1 /\ fw_count s1 = fw_count (fw_reset wn s t) + 1 /\ fw_count s1 <= n \/
                 granted o x <> 1 /\ fw_count s1 = fw_count (fw_reset wn s t))).
      { destruct o as [t'|t']; cbn [fw_step granted time_of] in *; subst t.
        - unfold fw_acquire. destruct (Z.ltb_spec (fw_count (fw_reset wn s t')) n); eexists _, _; (split; [reflexivity|]);
            cbn [fw_start fw_count b2z]; (split; [auto|]); [left; lia|right; lia].
        - destruct (tua s t') as [s1 x] eqn:ET. exists s1, x. split; [auto|].
          assert (s1 = fw_reset wn s t').
          { unfold fw_tua in ET. destruct (_ <? _); [|destruct (fw_start _); [destruct (nle _ _ _)|]]; inversion ET; auto. }
          subst s1. split; [auto|right; split; [lia|auto]]. }
      destruct STEP as (s1 & x & ES & S1 & SC). rewrite ES.
      assert (WF1 : fw_wf s1 t).
      { split; [destruct SC as [(_ & ? & ?)|(_ & ?)]; lia|]. rewrite S1. exists (win_of t). split; [auto|lia]. }
      specialize (IH s1 t k WF1 Hnd).
      assert (CW1 : cur_win s1 = Some (win_of t)) by (unfold cur_win; rewrite S1, Z.div_mul by lia; auto).
      rewrite filter_app, app_length, Nat2Z.inj_add.
      unfold budget in *. rewrite CW1 in IH.
      pose proof (times_ge r s1 t Hnd) as TG.
      destruct (Z.eqb_spec (win_of t) k) as [EK|NK].
      + (* k is the window of this call *)
        assert (HB : n - fw_count (fw_reset wn s t) <= match cur_win s with Some k' => if k' =? k then n - fw_count s else n | None => n end).
        { destruct R3 as [[C E]|[C [E _]]].
          - rewrite C, EK, Z.eqb_refl, E. lia.
          - rewrite E. destruct (cur_win s) as [k'|]; [destruct (Z.eqb_spec k' k)|]; try lia. congruence. }
        destruct SC as [(G1 & C1 & _)|(G0 & C0)].
        * rewrite G1. cbn [Z.eqb Pos.eqb filter]. unfold inw at 1. fold t. rewrite EK, Z.eqb_refl. cbn [length]. lia.
        * destruct (Z.eqb_spec (granted o x) 1); [contradiction|]. cbn [filter length]. lia.
      + (* another window: this call contributes nothing to k *)
        assert (F0 : filter (inw k) (if granted o x =? 1 then [t] else []) = []).
        { destruct (granted o x =? 1); cbn [filter]; auto. unfold inw.
          destruct (Z.eqb_spec (win_of t) k); [contradiction|auto]. }
        rewrite F0. cbn [length].
        destruct (Z_lt_le_dec k (win_of t)) as [LT|GE].
        * rewrite (count_none k _ t TG LT) in *. cbn [length].
          destruct Hwf as [Hc _]. destruct (cur_win s) as [k'|]; [destruct (k' =? k)|]; lia.
        * (* k is a later window: the budget is n unless the state's window is k, impossible since it is <= win_of t < k *)
          assert (match cur_win s with Some k' => if k' =? k then n - fw_count s else n | None => n end = n).
          { destruct R3 as [[C _]|[_ [_ C]]].
            - rewrite C. destruct (Z.eqb_spec (win_of t) k); [contradiction|auto].
            - destruct (cur_win s) as [k'|]; auto. destruct (Z.eqb_spec k' k); [lia|auto]. }
          lia.
  Qed.

  Theorem fw_aligned_bound ops k : sorted ops ->
    Z.of_nat (length (filter (inw k) (run_times step {| fw_start := None; fw_count := 0 |} ops))) <= n.
  Proof.
    intros Hs. destruct ops as [|o r]; [cbn; lia|].
    apply (run_budget (o :: r) {| fw_start := None; fw_count := 0 |} (time_of o) k).
    - split; cbn; [lia|auto].
    - cbn. split; [lia|exact Hs].
  Qed.

  (** [fw_wf] (side condition of the time_until_available theorems) holds in every reachable state. *)
  Lemma fw_wf_step s lo o : fw_wf s lo -> lo <= time_of o -> fw_wf (fst (step s o)) (time_of o).
  Proof.
    intros Hwf Hlo. set (t := time_of o) in *.
    destruct (reset_spec s lo t Hwf Hlo) as (R1 & R2 & _).
    assert (WR : fw_wf (fw_reset wn s t) t).
    { split; [exact R2|]. rewrite R1. exists (win_of t). split; [auto|lia]. }
    destruct o as [t'|t']; cbn [fw_step time_of] in *; subst t.
    - unfold fw_acquire. destruct (Z.ltb_spec (fw_count (fw_reset wn s t')) n); cbn [fst]; [|exact WR].
      split; cbn [fw_count fw_start]; [lia|]. rewrite R1. exists (win_of t'). split; [auto|lia].
    - assert (fst (tua s t') = fw_reset wn s t').
      { unfold fw_tua. destruct (_ <? _); [|destruct (fw_start _); [destruct (nle _ _ _)|]]; reflexivity. }
      rewrite H. exact WR.
  Qed.

  Theorem fw_wf_reachable ops : forall s lo, fw_wf s lo -> nondecr lo ops ->
    fw_wf (fst (run_count granted step s ops)) (last_time lo ops).
  Proof.
    induction ops as [|o r IH]; intros s lo Hwf Hnd; cbn [run_count last_time]; [exact Hwf|].
    destruct Hnd as [Hlo Hnd]. pose proof (fw_wf_step s lo o Hwf Hlo) as W1.
    destruct (step s o) as [s1 x]. cbn [fst] in W1. specialize (IH s1 _ W1 Hnd).
    destruct (run_count granted step s1 r) as [s2 k]. exact IH.
  Qed.

  (** ... hence at most 2N in any interval of one window length [a, a + w]. *)
  Lemma filter_or_length {A} (p q r : A -> bool) l : (forall x, p x = true -> q x = true \/ r x = true) ->
    (length (filter p l) <= length (filter q l) + length (filter r l))%nat.
  Proof.
    intros H. induction l as [|x l IH]; cbn; [lia|].
    destruct (p x) eqn:Ep; [destruct (H x Ep) as [E|E]; rewrite E; destruct (q x), (r x); cbn; lia|].
    destruct (q x), (r x); cbn; lia.
  Qed.

  Theorem fw_any_interval_bound ops a : sorted ops ->
    Z.of_nat (length (filter (fun t => (a <=? t) && (t <=? a + wn))
                        (run_times step {| fw_start := None; fw_count := 0 |} ops))) <= 2 * n.
  Proof.
    intros Hs.
    pose proof (fw_aligned_bound ops (win_of a) Hs). pose proof (fw_aligned_bound ops (win_of a + 1) Hs).
    pose proof (filter_or_length (fun t => (a <=? t) && (t <=? a + wn)) (inw (win_of a)) (inw (win_of a + 1))
                  (run_times step {| fw_start := None; fw_count := 0 |} ops)) as FL.
    assert (forall x, (a <=? x) && (x <=? a + wn) = true -> inw (win_of a) x = true \/ inw (win_of a + 1) x = true).
    { intros x Hx. apply andb_true_iff in Hx. destruct Hx as [H1 H2]. apply Z.leb_le in H1, H2.
      unfold inw. pose proof (win_mono a x H1). pose proof (win_mono x (a + wn) H2).
      assert (win_of (a + wn) = win_of a + 1).
      { unfold win_of. rewrite W_eq. replace (a + wn) with (a + 1 * wn) by lia. rewrite Z.div_add by lia. auto. }
      destruct (Z.eqb_spec (win_of x) (win_of a)); [auto|]. right. apply Z.eqb_eq. lia. }
    specialize (FL H1). lia.
  Qed.

  (** ** time_until_available *)
  Lemma reset_idem s t : fw_reset wn (fw_reset wn s t) t = fw_reset wn s t.
  Proof.
    unfold fw_reset at 2 3. destruct (fw_start s) as [c|] eqn:E.
    - destruct (Z.ltb_spec c (wstart t)).
      + unfold fw_reset. cbn [fw_start]. rewrite Z.ltb_irrefl. reflexivity.
      + unfold fw_reset. rewrite E. destruct (Z.ltb_spec c (wstart t)); [lia|reflexivity].
    - unfold fw_reset. cbn [fw_start]. rewrite Z.ltb_irrefl. reflexivity.
  Qed.

  Theorem fw_tua_zero_acquires s lo now s1 : fw_wf s lo -> lo <= now -> tua s now = (s1, 0) ->
    snd (acquire s now) = true /\ snd (acquire s1 now) = true.
  Proof.
    intros Hwf Hlo. destruct (reset_spec s lo now Hwf Hlo) as (R1 & R2 & _).
    unfold fw_tua, fw_acquire. destruct (Z.ltb_spec (fw_count (fw_reset wn s now)) n) as [L|L].
    - intros E. inversion E; subst. rewrite reset_idem.
      destruct (Z.ltb_spec (fw_count (fw_reset wn s now)) n); [auto|lia].
    - rewrite R1. cbn [secs nanos nle n0 Qops]. destruct (wstart_spec now) as [_ B]. unfold fw_window_start in B.
      intros E. exfalso.
      assert (P : 0 < win_of now * wn + wn - now) by (unfold win_of; rewrite W_eq in *; lia).
      destruct (Qle_bool (qsecs (win_of now * wn + wn - now)) 0) eqn:EQ.
      + apply Qle_bool_iff in EQ. apply (proj1 (qsecs_le0 _)) in EQ. lia.
      + inversion E. rewrite qnanos_qsecs in H1. unfold guard in H1.
        destruct (Z.eqb_spec (win_of now * wn + wn - now) 0); lia.
  Qed.

  (** An exhausted window [k]: nothing is granted before its end. *)
  Definition fw_full (s : fws) (k : Z) : Prop := fw_start s = Some (k * wn) /\ n <= fw_count s.

  Lemma full_step s k o : fw_full s k -> time_of o < (k + 1) * wn ->
    fst (step s o) = s /\ granted o (snd (step s o)) = 0.
  Proof.
    intros [Hs Hc] Ht.
    assert (R : fw_reset wn s (time_of o) = s).
    { unfold fw_reset. rewrite Hs. destruct (wstart_spec (time_of o)) as [E B]. rewrite E in *.
      destruct (Z.ltb_spec (k * wn) (win_of (time_of o) * wn)); [|reflexivity].
      assert (k < win_of (time_of o)) by nia. assert ((k + 1) * wn <= win_of (time_of o) * wn) by nia. lia. }
    destruct o as [t|t]; cbn [fw_step time_of granted] in *.
    - unfold fw_acquire. rewrite R. destruct (Z.ltb_spec (fw_count s) n); [lia|]. cbn. auto.
    - unfold fw_tua. rewrite R. destruct (Z.ltb_spec (fw_count s) n); [lia|]. rewrite Hs.
      destruct (nle Qops _ _); cbn; auto.
  Qed.

  Theorem fw_tua_positive_blocks s lo now s1 w ops :
    fw_wf s lo -> lo <= now -> tua s now = (s1, w) -> 0 < w ->
    Forall (fun o => time_of o < now + w) ops ->
    snd (run_count granted step s1 ops) = 0.
  Proof.
    intros Hwf Hlo E Hw HF. destruct (reset_spec s lo now Hwf Hlo) as (R1 & R2 & _).
    assert (FULL : fw_full s1 (win_of now) /\ now + w <= (win_of now + 1) * wn).
    { destruct (wstart_spec now) as [EW BW]. rewrite EW in BW.
      unfold fw_tua in E. destruct (Z.ltb_spec (fw_count (fw_reset wn s now)) n) as [L|L]; [inversion E; lia|].
      rewrite R1 in E. cbn [secs nanos nle n0 Qops] in E.
      destruct (Qle_bool (qsecs (win_of now * wn + wn - now)) 0) eqn:EQ; [inversion E; lia|].
      inversion E; subst. split; [split; auto|]. rewrite qnanos_qsecs. unfold guard.
      destruct (Z.eqb_spec (win_of now * wn + wn - now) 0); lia. }
    destruct FULL as [FULL HD]. clear E.
    induction ops as [|o r IH]; [reflexivity|]. inversion HF as [|? ? Ho Hr]; subst.
    cbn [run_count]. destruct (full_step s1 (win_of now) o FULL ltac:(lia)) as [A B].
    destruct (step s1 o) as [s2 x]. cbn [fst snd] in *. subst s2. rewrite B. specialize (IH Hr).
    destruct (run_count granted step s1 r) as [s3 m]. cbn [snd] in *. lia.
  Qed.

  (** One wait is enough: the returned wait ends exactly at the next window start. *)
  Hypothesis n_pos : 1 <= n.
  Theorem fw_tua_progress s lo now : fw_wf s lo -> lo <= now ->
    let '(s1, w1) := tua s now in
    let '(s2, w2) := tua s1 (now + w1) in
    w2 = 0 /\ 0 <= w1.
  Proof.
    intros Hwf Hlo. destruct (reset_spec s lo now Hwf Hlo) as (R1 & R2 & _).
    destruct (wstart_spec now) as [EW BW].
    assert (ZERO : forall st t, fw_count (fw_reset wn st t) < n -> snd (tua st t) = 0).
    { intros st t H. unfold fw_tua. destruct (Z.ltb_spec (fw_count (fw_reset wn st t)) n); [reflexivity|lia]. }
    unfold fw_tua at 1. destruct (Z.ltb_spec (fw_count (fw_reset wn s now)) n) as [L|L].
    - rewrite Z.add_0_r. pose proof (ZERO (fw_reset wn s now) now) as Z0. rewrite reset_idem in Z0. specialize (Z0 L).
      destruct (tua (fw_reset wn s now) now) as [s2 w2]. cbn [snd] in Z0. lia.
    - rewrite R1. cbn [secs nanos nle n0 Qops]. rewrite EW in BW.
      destruct (Qle_bool (qsecs (win_of now * wn + wn - now)) 0) eqn:EQ.
      + apply Qle_bool_iff in EQ. apply (proj1 (qsecs_le0 _)) in EQ. lia.
      + rewrite qnanos_qsecs. unfold guard. destruct (Z.eqb_spec (win_of now * wn + wn - now) 0); [lia|].
        replace (now + (win_of now * wn + wn - now)) with ((win_of now + 1) * wn) by lia.
        pose proof (ZERO (fw_reset wn s now) ((win_of now + 1) * wn)) as Z0.
        assert (fw_count (fw_reset wn (fw_reset wn s now) ((win_of now + 1) * wn)) < n).
        { unfold fw_reset at 1. rewrite R1. unfold fw_window_start. rewrite W_eq, Z.div_mul by lia.
          destruct (Z.ltb_spec (win_of now * wn) ((win_of now + 1) * wn)); [cbn; lia|lia]. }
        specialize (Z0 H). destruct (tua (fw_reset wn s now) ((win_of now + 1) * wn)) as [s2 w2]. cbn [snd] in Z0. lia.
  Qed.
End FW.

Example fw_example :
  run_times (fw_step Qops 100 2) {| fw_start := None; fw_count := 0 |} [Acq 0; Acq 99; Acq 99; Acq 100; Acq 100; Acq 101] = [0; 99; 100; 100] /\
  snd (fw_tua Qops 100 1 {| fw_start := Some 200; fw_count := 1 |} 300) = 0 /\
  snd (fw_tua Qops 100 1 {| fw_start := Some 200; fw_count := 1 |} 250) = 50.
Proof. vm_compute. repeat split; congruence. Qed.
