(** Token bucket (exact-rational instance): never over-admits; time_until_available is truthful. *)
From HS Require Import Base.Prelude C10.Model C10.QFacts.
From Coq Require Import QArith Qround Lqa.
Local Open Scope Q_scope.

Ltac qsimp := cbn [num nadd nsub nmul ndiv nle nlt neqb n0 n1 secs nanos Qops] in *.

Section TB.
  Variable p : tbp Qops.
  Notation cap := (tb_cap p).
  Notation rate := (tb_rate p).
  Hypothesis rate_pos : 0 < rate.
  Hypothesis cap_nonneg : 0 <= cap.

  Implicit Types s : tbs Qops.
  Notation refill := (tb_refill Qops p).
  Notation acquire := (tb_acquire Qops p).
  Notation tua := (tb_tua Qops p).
  Notation step := (tb_step Qops p).

  Lemma refill_none s now : tb_last s = None ->
    refill s now = {| tb_tokens := tb_tokens s; tb_last := Some now |}.
  Proof. intros H. unfold tb_refill. rewrite H. reflexivity. Qed.

  Lemma refill_some s now l : tb_last s = Some l -> (l <= now)%Z -> 0 <= tb_tokens s ->
    let s' := refill s now in
    tb_last s' = Some now /\ 0 <= tb_tokens s' /\
    tb_tokens s' <= tb_tokens s + rate * qsecs (now - l) /\
    (forall B, cap <= B -> tb_tokens s <= B -> tb_tokens s' <= B) /\
    (forall m, m <= cap -> m <= tb_tokens s + rate * qsecs (now - l) -> m <= tb_tokens s').
  Proof.
    intros Hl Hle H0. unfold tb_refill. rewrite Hl. qsimp.
    qcase (qsecs (now - l)) 0.
    - apply (proj1 (qsecs_le0 _)) in E. assert (now = l) by lia. subst now.
      rewrite Z.sub_diag. cbn zeta. rewrite Hl.
      assert (Z0 : rate * qsecs 0 == 0) by (setoid_replace (qsecs 0) with 0 by reflexivity; ring).
      repeat split; auto; intros; try rewrite Z0 in *; try lra.
    - cbn zeta. cbn [tb_last tb_tokens].
      destruct (nmin_q cap (tb_tokens s + qsecs (now - l) * rate)) as [[A ->]|[A ->]];
        repeat split; auto; intros; try lra.
      assert (0 <= qsecs (now - l) * rate) by (apply Qmult_le_0_compat; lra). lra.
  Qed.

  (** Well-formed states: tokens in [0, B]; the refill time is not after [lo]
      (the earliest time of any later operation). *)
  Definition tb_wf (B : Q) (s : tbs Qops) (lo : Z) : Prop :=
    0 <= tb_tokens s /\ tb_tokens s <= B /\
    match tb_last s with None => True | Some l => (l <= lo)%Z end.

  Lemma refill_wf B s lo now : cap <= B -> tb_wf B s lo -> (lo <= now)%Z ->
    let s' := refill s now in
    tb_last s' = Some now /\ 0 <= tb_tokens s' /\ tb_tokens s' <= B.
  Proof.
    intros HB (H0 & H1 & H2) Hlo. destruct (tb_last s) as [l|] eqn:Hl.
    - destruct (refill_some s now l Hl ltac:(lia) H0) as (A1 & A2 & A3 & A4 & A5). auto.
    - rewrite (refill_none s now Hl). cbn. auto.
  Qed.

  Lemma step_facts s o :
    let '(s1, x) := step s o in
    let r := refill s (time_of o) in
    tb_last s1 = tb_last r /\
    ((granted o x = 1%Z /\ tb_tokens s1 == tb_tokens r - 1 /\ 1 <= tb_tokens r) \/
     (granted o x = 0%Z /\ tb_tokens s1 = tb_tokens r /\ (match o with Acq _ => tb_tokens r < 1 | _ => True end))).
  Proof.
    destruct o as [t|t]; cbn [tb_step time_of granted].
    - unfold tb_acquire. qsimp. qcase 1 (tb_tokens (refill s t)); cbn [tb_last tb_tokens b2z]; split; auto.
      left. repeat split; auto.
    - unfold tb_tua. qsimp. qcase 1 (tb_tokens (refill s t)); cbn; split; auto.
  Qed.

  Notation count := (run_count granted step).

  (** From a state refilled at [l], over operations at non-decreasing times >= l:
      granted + remaining tokens <= initial tokens + rate * elapsed. *)
  Lemma run_bound ops : forall s l, tb_last s = Some l -> 0 <= tb_tokens s -> nondecr l ops ->
    let '(s', n) := count s ops in
    tb_last s' = Some (last_time l ops) /\ 0 <= tb_tokens s' /\
    inject_Z n + tb_tokens s' <= tb_tokens s + rate * qsecs (last_time l ops - l).
  Proof.
    induction ops as [|o r IH]; intros s l Hl H0 Hnd; cbn [run_count last_time].
    - rewrite Z.sub_diag. setoid_replace (qsecs 0) with 0 by reflexivity.
      repeat split; auto. change (inject_Z 0) with 0. lra.
    - destruct Hnd as [Hlo Hnd].
      pose proof (step_facts s o) as SF. destruct (step s o) as [s1 x].
      destruct (refill_some s (time_of o) l Hl Hlo H0) as (A1 & A2 & A3 & _ & _).
      destruct SF as [SL ST]. cbv zeta in SL, ST. rewrite A1 in SL.
      assert (H1 : 0 <= tb_tokens s1) by (destruct ST as [(_ & E & ?)|(_ & E & _)]; [rewrite E; lra|rewrite E; auto]).
      specialize (IH s1 (time_of o) SL H1 Hnd).
      destruct (count s1 r) as [s2 n]. destruct IH as (B1 & B2 & B3).
      repeat split; auto.
      rewrite inject_Z_plus.
      pose proof (qsecs_split l (time_of o) (last_time (time_of o) r)) as SP.
      destruct ST as [(Ea & E & ?)|(Ea & E & _)]; rewrite Ea; [|rewrite E in B3];
        change (inject_Z 1) with 1; change (inject_Z 0) with 0; rewrite SP; try rewrite E in B3; lra.
  Qed.

  (** ** never over-admits: in any stretch [mid] of a run the number granted is at most
      B + rate * (time of last op - time of first op), for any B >= capacity, initial tokens. *)
  Lemma wf_run ops : forall B s lo, cap <= B -> tb_wf B s lo -> nondecr lo ops ->
    tb_wf B (fst (count s ops)) (last_time lo ops).
  Proof.
    induction ops as [|o r IH]; intros B s lo HB Hwf Hnd; cbn [run_count last_time]; [exact Hwf|].
    destruct Hnd as [Hlo Hnd].
    pose proof (step_facts s o) as SF. destruct (step s o) as [s1 x].
    destruct (refill_wf B s lo (time_of o) HB Hwf Hlo) as (A1 & A2 & A3).
    destruct SF as [SL ST]. cbv zeta in SL, ST. rewrite A1 in SL.
    assert (W1 : tb_wf B s1 (time_of o)).
    { unfold tb_wf. rewrite SL. destruct ST as [(_ & E & ?)|(_ & E & _)]; rewrite E; repeat split; try lra; lia. }
    specialize (IH B s1 (time_of o) HB W1 Hnd).
    destruct (count s1 r) as [s2 n]. exact IH.
  Qed.

  Lemma window_bound B s lo o r : cap <= B -> tb_wf B s lo -> nondecr lo (o :: r) ->
    inject_Z (snd (count s (o :: r))) <= B + rate * qsecs (last_time lo (o :: r) - time_of o).
  Proof.
    intros HB Hwf [Hlo Hnd]. cbn [run_count last_time].
    pose proof (step_facts s o) as SF. destruct (step s o) as [s1 x].
    destruct (refill_wf B s lo (time_of o) HB Hwf Hlo) as (A1 & A2 & A3).
    destruct SF as [SL ST]. cbv zeta in SL, ST. rewrite A1 in SL.
    assert (H1 : 0 <= tb_tokens s1) by (destruct ST as [(_ & E & ?)|(_ & E & _)]; [rewrite E; lra|rewrite E; auto]).
    pose proof (run_bound r s1 (time_of o) SL H1 Hnd) as RB.
    destruct (count s1 r) as [s2 n]. destruct RB as (B1 & B2 & B3). cbn [snd].
    rewrite inject_Z_plus.
    destruct ST as [(Ea & E & ?)|(Ea & E & _)]; rewrite Ea;
      change (inject_Z 1) with 1; change (inject_Z 0) with 0; [rewrite E in B3|rewrite E in B3]; lra.
  Qed.

  Theorem tb_never_over_admits init pre mid B :
    0 <= init -> init <= B -> cap <= B -> sorted (pre ++ mid) ->
    let s0 := Build_tbs Qops init None in
    let s1 := fst (count s0 pre) in
    inject_Z (snd (count s1 mid)) <=
      B + rate * qsecs (match mid with [] => 0 | o :: r => last_time (time_of o) r - time_of o end).
  Proof.
    intros H0 HiB HB Hs s0 s1.
    destruct mid as [|o r].
    - cbn [run_count snd]. setoid_replace (qsecs 0) with 0 by reflexivity. change (inject_Z 0) with 0. lra.
    - set (lo := match pre with [] => time_of o | o' :: _ => time_of o' end).
      assert (Hnd : nondecr lo (pre ++ o :: r)).
      { unfold lo. destruct pre as [|o' pre']; cbn in Hs |- *; [split; [lia|auto]|split; [lia|auto]]. }
      apply nondecr_app in Hnd. destruct Hnd as [Hp Hm].
      assert (W0 : tb_wf B s0 lo) by (unfold tb_wf, s0; cbn; auto).
      pose proof (wf_run pre B s0 lo HB W0 Hp) as W1. fold s1 in W1.
      pose proof (window_bound B s1 (last_time lo pre) o r HB W1 Hm) as WB.
      cbn [last_time] in WB. exact WB.
  Qed.

  (* ---------------------------------------------------------------- *)
  (** ** time_until_available is truthful *)
  Lemma refill_idem s now : refill (refill s now) now = refill s now.
  Proof.
    unfold tb_refill at 2 3. destruct (tb_last s) as [l|] eqn:Hl; qsimp.
    - qcase (qsecs (now - l)) 0; cbv zeta.
      + unfold tb_refill. rewrite Hl. qsimp. apply Qle_bool_iff in E. rewrite E. reflexivity.
      + unfold tb_refill. cbn [tb_last]. rewrite Z.sub_diag. reflexivity.
    - unfold tb_refill. cbn [tb_last]. rewrite Z.sub_diag. reflexivity.
  Qed.

  Lemma rate_lt a b : a < b -> rate * a < rate * b.
  Proof. intros. apply Qmult_lt_l; auto. Qed.
  Lemma rate_le a b : a <= b -> rate * a <= rate * b.
  Proof. intros. apply Qmult_le_l; auto. Qed.

  Lemma tua_spec s now :
    let r := refill s now in
    fst (tua s now) = r /\
    ((1 <= tb_tokens r /\ snd (tua s now) = 0%Z) \/
     (tb_tokens r < 1 /\ snd (tua s now) = guard (qnanos ((1 - tb_tokens r) / rate)))).
  Proof.
    unfold tb_tua. qsimp. qcase 1 (tb_tokens (refill s now)); cbn; split; auto.
  Qed.

  Lemma acquire_spec s now :
    let r := refill s now in
    (1 <= tb_tokens r /\ snd (acquire s now) = true) \/
    (tb_tokens r < 1 /\ acquire s now = (r, false)).
  Proof.
    unfold tb_acquire. qsimp. qcase 1 (tb_tokens (refill s now)); cbn; auto.
  Qed.

  Theorem tb_tua_zero_acquires s now s1 : tua s now = (s1, 0%Z) ->
    snd (acquire s now) = true /\ snd (acquire s1 now) = true.
  Proof.
    intros H. destruct (tua_spec s now) as [F [[A B]|[A B]]]; rewrite H in *; cbn [fst snd] in *.
    - subst s1. split.
      + destruct (acquire_spec s now) as [[_ ?]|[? _]]; [auto|lra].
      + destruct (acquire_spec (refill s now) now) as [[_ ?]|[C _]]; [auto|]. rewrite refill_idem in C. lra.
    - exfalso. assert (0 <= (1 - tb_tokens (refill s now)) / rate).
      { apply Qle_shift_div_l; auto. lra. }
      pose proof (guard_pos _ (qnanos_ge0 _ H0)). lia.
  Qed.

  (** A state in which nothing can be granted strictly before [D]. *)
  Definition blocked s (D : Z) : Prop :=
    exists l, tb_last s = Some l /\ (l < D)%Z /\ 0 <= tb_tokens s /\
              tb_tokens s + rate * qsecs (D - 1 - l) < 1.

  Lemma blocked_step s D o : blocked s D ->
    (match tb_last s with Some l => (l <= time_of o)%Z | None => True end) -> (time_of o < D)%Z ->
    granted o (snd (step s o)) = 0%Z /\ blocked (fst (step s o)) D /\ tb_last (fst (step s o)) = Some (time_of o).
  Proof.
    intros (l & Hl & HlD & H0 & Hb) Hlo HD. rewrite Hl in Hlo.
    pose proof (step_facts s o) as SF. destruct (step s o) as [s1 x]. cbn [fst snd].
    destruct (refill_some s (time_of o) l Hl Hlo H0) as (A1 & A2 & A3 & _ & _).
    destruct SF as [SL ST]. cbv zeta in SL, ST. rewrite A1 in SL.
    pose proof (qsecs_split l (time_of o) (D - 1)) as SP.
    assert (M : qsecs (time_of o - l) <= qsecs (D - 1 - l)) by (apply qsecs_mono; lia).
    apply rate_le in M.
    destruct ST as [(Ea & E & C)|(Ea & E & _)].
    - exfalso. lra.
    - split; [auto|]. split; [|auto]. exists (time_of o). rewrite E. repeat split; auto.
      assert (N0 : 0 <= qsecs (time_of o - l)) by (apply qsecs_nonneg; lia).
      rewrite SP in Hb. lra.
  Qed.

  Lemma blocked_run ops : forall s D l, blocked s D -> tb_last s = Some l -> nondecr l ops ->
    (last_time l ops < D)%Z -> snd (count s ops) = 0%Z.
  Proof.
    induction ops as [|o r IH]; intros s D l Hb Hl Hnd HD; cbn [run_count last_time] in *; [reflexivity|].
    destruct Hnd as [Hlo Hnd].
    pose proof (last_time_ge _ _ Hnd).
    destruct (blocked_step s D o Hb) as (A & B & C); [rewrite Hl; auto|lia|].
    destruct (step s o) as [s1 x]. cbn [fst snd] in *.
    specialize (IH s1 D (time_of o) B C Hnd HD).
    destruct (count s1 r) as [s2 n]. cbn [snd] in *. lia.
  Qed.

  Definition tb_ready s (now : Z) : Prop :=
    0 <= tb_tokens s /\ match tb_last s with None => True | Some l => (l <= now)%Z end.

  Lemma refill_ready s now : tb_ready s now ->
    tb_last (refill s now) = Some now /\ 0 <= tb_tokens (refill s now).
  Proof.
    intros [H0 Hl]. destruct (tb_last s) as [l|] eqn:E.
    - destruct (refill_some s now l E Hl H0) as (A1 & A2 & _). auto.
    - rewrite (refill_none s now E). cbn. auto.
  Qed.

  Lemma tua_blocks s now : tb_ready s now -> (0 < snd (tua s now))%Z ->
    blocked (fst (tua s now)) (now + snd (tua s now)).
  Proof.
    intros Hr Hw. destruct (refill_ready s now Hr) as [RL R0].
    destruct (tua_spec s now) as [F [[A B]|[A B]]]; rewrite F; [rewrite B in Hw; lia|].
    set (r := refill s now) in *. set (q := (1 - tb_tokens r) / rate) in *.
    assert (Hq : 0 <= q) by (apply Qle_shift_div_l; auto; lra).
    assert (Hqr : rate * q == 1 - tb_tokens r) by (unfold q; field; lra).
    exists now. rewrite B. repeat split; auto; [lia|].
    destruct (guard_cases (qnanos q)) as [[Z0 ->]|[NZ ->]].
    - replace (now + 1 - 1 - now)%Z with 0%Z by lia. setoid_replace (qsecs 0) with 0 by reflexivity. lra.
    - replace (now + qnanos q - 1 - now)%Z with (qnanos q - 1)%Z by lia.
      pose proof (qnanos_le q Hq) as QL. unfold G in QL.
      assert (QS : qsecs (qnanos q - 1) < q).
      { rewrite qsecs_inj, inject_Z_minus. change (inject_Z 1) with 1. lra. }
      apply rate_lt in QS. lra.
  Qed.

  (** tua = w > 0: no acquire at any time in [now, now + w) is granted, whatever
      sequence of calls is made in between. *)
  Theorem tb_tua_positive_blocks s now s1 w ops :
    tb_ready s now -> tua s now = (s1, w) -> (0 < w)%Z ->
    nondecr now ops -> (last_time now ops < now + w)%Z ->
    snd (count s1 ops) = 0%Z.
  Proof.
    intros Hr H Hw Hnd HD.
    pose proof (tua_blocks s now Hr) as Hb. rewrite H in Hb. cbn [fst snd] in Hb. specialize (Hb Hw).
    destruct (refill_ready s now Hr) as [RL _].
    destruct (tua_spec s now) as [F _]. rewrite H in F. cbn [fst] in F. subst s1.
    exact (blocked_run ops _ _ now Hb RL Hnd HD).
  Qed.

  (** ** progress: following the returned waits reaches an admitting instant after at most two waits *)
  Hypothesis cap_ge1 : 1 <= cap.

  Lemma refill_level s l t : tb_last s = Some l -> (l <= t)%Z -> 0 <= tb_tokens s ->
    (1 <= tb_tokens s + rate * qsecs (t - l) -> 1 <= tb_tokens (refill s t)) /\
    (tb_tokens (refill s t) < 1 -> tb_tokens (refill s t) == tb_tokens s + rate * qsecs (t - l)).
  Proof.
    intros Hl Hle H0. destruct (refill_some s t l Hl Hle H0) as (A1 & A2 & A3 & A4 & A5). split.
    - intros H. apply A5; auto.
    - intros H.
      assert (S1 : tb_tokens s + rate * qsecs (t - l) < 1).
      { apply Qnot_le_lt. intros C. pose proof (A5 1 cap_ge1 C). lra. }
      apply Qle_antisym; auto. apply A5; lra.
  Qed.

  Lemma tua_same s now : tb_last s = Some now -> snd (tua s now) = (if Qle_bool 1 (tb_tokens s) then 0%Z else snd (tua s now)) /\
    (1 <= tb_tokens s -> tua s now = (s, 0%Z)).
  Proof.
    intros Hl. assert (R : refill s now = s).
    { unfold tb_refill. rewrite Hl. qsimp. rewrite Z.sub_diag. reflexivity. }
    unfold tb_tua. rewrite R. qsimp. qcase 1 (tb_tokens s); cbn; split; auto. intros; lra.
  Qed.

  (** One more nanosecond is enough when the remaining need is below 1 ns. *)
  Lemma last_ns s l : tb_last s = Some l -> 0 <= tb_tokens s -> tb_tokens s < 1 ->
    (1 - tb_tokens s) / rate * G < 1 -> 1 <= tb_tokens (refill s (l + 1)).
  Proof.
    intros Hl H0 H1 Hx.
    destruct (refill_level s l (l + 1) Hl ltac:(lia) H0) as [A _]. apply A.
    replace (l + 1 - l)%Z with 1%Z by lia.
    set (q := (1 - tb_tokens s) / rate) in *.
    assert (Hqr : rate * q == 1 - tb_tokens s) by (unfold q; field; lra).
    assert (QS : q < qsecs 1) by (rewrite qsecs_inj; change (inject_Z 1) with 1; unfold G in Hx; lra).
    apply rate_lt in QS. lra.
  Qed.

  Theorem tb_tua_progress s now : tb_ready s now ->
    let '(s1, w1) := tua s now in
    let '(s2, w2) := tua s1 (now + w1) in
    let '(s3, w3) := tua s2 (now + w1 + w2) in
    w3 = 0%Z /\ (0 <= w1)%Z /\ (0 <= w2)%Z.
  Proof.
    intros Hr. destruct (refill_ready s now Hr) as [RL R0].
    pose proof (tua_spec s now) as T1. destruct (tua s now) as [s1 w1]. cbn [fst snd] in T1.
    destruct T1 as [F1 T1]. cbv zeta in F1. subst s1. set (s1 := refill s now) in *.
    (* a state already holding a token answers 0 from then on *)
    assert (STAY : forall (st : tbs Qops) t, tb_last st = Some t -> 1 <= tb_tokens st ->
              let '(s2, w2) := tua st (t + 0) in let '(s3, w3) := tua s2 (t + 0 + w2) in w3 = 0%Z /\ (0 <= w2)%Z).
    { intros st t Hl H1. rewrite Z.add_0_r. destruct (tua_same st t Hl) as [_ E]. rewrite (E H1).
      rewrite Z.add_0_r. rewrite (E H1). split; lia. }
    destruct T1 as [[A B]|[A B]].
    - subst w1. specialize (STAY s1 now RL A). destruct (tua s1 (now + 0)) as [s2 w2].
      destruct (tua s2 (now + 0 + w2)) as [s3 w3]. intuition lia.
    - set (q := (1 - tb_tokens s1) / rate) in *.
      assert (Hq : 0 <= q) by (apply Qle_shift_div_l; auto; lra).
      assert (Hqr : rate * q == 1 - tb_tokens s1) by (unfold q; field; lra).
      pose proof (qnanos_le q Hq) as QL. pose proof (qnanos_gt q Hq) as QG. pose proof (qnanos_ge0 q Hq) as QN.
      assert (W1 : (0 < w1)%Z) by (rewrite B; apply guard_pos; auto).
      pose proof (tua_spec s1 (now + w1)) as T2. destruct (tua s1 (now + w1)) as [s2 w2]. cbn [fst snd] in T2.
      destruct T2 as [F2 T2]. cbv zeta in F2. subst s2. set (s2 := refill s1 (now + w1)) in *.
      destruct (refill_some s1 (now + w1) now RL ltac:(lia) R0) as (L2 & P2 & _).
      destruct (refill_level s1 now (now + w1) RL ltac:(lia) R0) as [LV1 LV2].
      replace (now + w1 - now)%Z with w1 in * by lia.
      destruct T2 as [[A2 B2]|[A2 B2]].
      + subst w2. destruct (tua_same s2 (now + w1) L2) as [_ E]. rewrite Z.add_0_r. rewrite (E A2). split; lia.
      + (* still short after the first wait: the wait was the floor, the rest is below 1 ns *)
        specialize (LV2 A2). fold s2 in LV2.
        assert (QW : qsecs w1 == inject_Z w1 * (1 # 1000000000)) by apply qsecs_inj.
        assert (NG : qnanos q <> 0%Z).
        { intros Z0. unfold guard in B. rewrite Z0 in B. cbn in B. subst w1.
          rewrite Z0 in QG. change (inject_Z 0) with 0 in QG. unfold G in QG.
          assert (q < qsecs 1) by (rewrite qsecs_inj; change (inject_Z 1) with 1; lra).
          apply rate_lt in H. lra. }
        assert (EW : w1 = qnanos q) by (destruct (guard_cases (qnanos q)) as [[? _]|[_ E]]; [contradiction|congruence]).
        assert (X2 : (1 - tb_tokens s2) / rate * G < 1).
        { assert (E2 : (1 - tb_tokens s2) / rate == q - qsecs w1).
          { rewrite LV2. unfold q. field. lra. }
          rewrite E2, QW. rewrite <- EW in QG. unfold G in *. lra. }
        assert (X2' : 0 <= (1 - tb_tokens s2) / rate) by (apply Qle_shift_div_l; auto; lra).
        assert (W2 : w2 = 1%Z).
        { rewrite B2. rewrite qnanos_nonneg by auto.
          assert (Qfloor ((1 - tb_tokens s2) / rate * G) = 0%Z).
          { assert (0 <= (1 - tb_tokens s2) / rate * G) by (unfold G; apply Qmult_le_0_compat; [auto|lra]).
            pose proof (Qfloor_le ((1 - tb_tokens s2) / rate * G)).
            pose proof (Qlt_floor ((1 - tb_tokens s2) / rate * G)).
            assert (inject_Z (Qfloor ((1 - tb_tokens s2) / rate * G)) < inject_Z 1) by (change (inject_Z 1) with 1; lra).
            rewrite <- Zlt_Qlt in H2.
            assert (inject_Z (-1) < inject_Z (Qfloor ((1 - tb_tokens s2) / rate * G))).
            { rewrite inject_Z_plus in H1. change (inject_Z 1) with 1 in H1. change (inject_Z (-1)) with (-1). lra. }
            rewrite <- Zlt_Qlt in H3. lia. }
          rewrite H. reflexivity. }
        clear B2. subst w2.
        pose proof (last_ns s2 (now + w1) L2 P2 A2 X2) as L3.
        destruct (tua_spec s2 (now + w1 + 1)) as [F3 [[A3 B3]|[A3 B3]]].
        * destruct (tua s2 (now + w1 + 1)) as [s3 w3]. cbn [snd] in B3. split; [auto|lia].
        * cbv zeta in A3. lra.
  Qed.
End TB.

(** [tb_ready] (side condition of the time_until_available theorems) holds in every reachable
    state, for every later instant: [tb_wf] is preserved by runs ([wf_run]) and implies it. *)
Lemma tb_wf_ready (p : tbp Qops) B s lo now : tb_wf B s lo -> (lo <= now)%Z -> tb_ready s now.
Proof. intros (H0 & _ & Hl) H. split; [exact H0|]. destruct (tb_last s); [lia|exact I]. Qed.

(** The hypotheses are satisfiable, and the theorems say something on a concrete run:
    capacity 2, rate 1/s, four acquires at t = 0, 0, 0, 1 s. *)
Example tb_example :
  let p := Build_tbp Qops 2 1 in
  0 < tb_rate p /\ 1 <= tb_cap p /\
  snd (run_count granted (tb_step Qops p) (Build_tbs Qops 2 None)
         [Acq 0; Acq 0; Acq 0; Tua 0; Acq 1000000000]) = 3%Z /\
  snd (tb_tua Qops p (Build_tbs Qops 0 (Some 0%Z)) 0) = 1000000000%Z.
Proof. vm_compute. repeat split; congruence. Qed.
