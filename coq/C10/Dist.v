(** DistributedRateLimiter: every request received by a limiter instance is forwarded,
    dropped, or still suspended at a store access — for every interleaving of handler
    starts and resumptions, any number of instances, any limit. *)
From HS Require Import Base.Prelude C10.Model.
Local Open Scope Z_scope.

Definition lim_of (x : Z * Z * option Z) : Z := fst (fst x).
Definition cnt (l : Z) (ps : list dproc) : Z :=
  Z.of_nat (length (filter (fun p => lim_of (snd p) =? l) ps)).
Definition inflight (w : dworld) (l : Z) : Z := cnt l (w_procs w).

Definition dinv (w : dworld) : Prop :=
  forall l, d_recv (w_lims w l) = d_fwd (w_lims w l) + d_drop (w_lims w l) + inflight w l.

Lemma cnt_app l a b : cnt l (a ++ b) = cnt l a + cnt l b.
Proof. unfold cnt. rewrite filter_app, app_length, Nat2Z.inj_add. reflexivity. Qed.

Lemma cnt_remove l req ps x : dfind req ps = Some x ->
  cnt l (dremove req ps) = cnt l ps - (if lim_of x =? l then 1 else 0).
Proof.
  induction ps as [|[r y] rest IH]; cbn [dfind dremove]; [discriminate|].
  destruct (r =? req).
  - intros E. inversion E; subst. unfold cnt. cbn [filter snd]. destruct (lim_of x =? l); cbn [length]; lia.
  - intros E. specialize (IH E). unfold cnt in *. cbn [filter snd]. destruct (lim_of y =? l); cbn [length]; lia.
Qed.

Lemma cnt_set l req ps x x' : dfind req ps = Some x -> lim_of x' = lim_of x ->
  cnt l (dset req x' ps) = cnt l ps.
Proof.
  induction ps as [|[r y] rest IH]; cbn [dfind dset]; [discriminate|].
  destruct (r =? req).
  - intros E H. inversion E; subst. unfold cnt. cbn [filter snd]. rewrite H. destruct (lim_of x =? l); reflexivity.
  - intros E H. specialize (IH E H). unfold cnt in *. cbn [filter snd]. destruct (lim_of y =? l); cbn [length]; lia.
Qed.

Lemma dist_step_inv limit w e : dinv w -> dinv (fst (dist_step limit w e)).
Proof.
  intros I. destruct e as [lim req wid|req now]; cbn [dist_step].
  - destruct (match d_win (w_lims w lim) with
              | Some k => if k =? wid then (d_local (w_lims w lim), d_known (w_lims w lim)) else (0, 0)
              | None => (0, 0) end) as [lc kn].
    destruct (limit <=? kn); cbn [fst]; intros l; specialize (I l); unfold inflight, dupd in *; cbn [w_lims w_procs];
      destruct (Z.eqb_spec l lim); subst; cbn [d_recv d_fwd d_drop]; try lia.
    + rewrite cnt_app. unfold cnt at 2. cbn [filter snd lim_of fst]. rewrite Z.eqb_refl. cbn [length]. lia.
    + rewrite cnt_app. unfold cnt at 2. cbn [filter snd lim_of fst].
      destruct (Z.eqb_spec lim l); [congruence|]. cbn [length]. lia.
  - destruct (dfind req (w_procs w)) as [[[lim wid] [newc|]]|] eqn:EF; [| |exact I].
    + cbn [fst]. intros l. specialize (I l). unfold inflight, dupd in *. cbn [w_lims w_procs].
      rewrite (cnt_remove l req _ _ EF). cbn [lim_of fst].
      destruct (Z.eqb_spec l lim); subst; cbn [d_recv d_fwd d_drop].
      * rewrite Z.eqb_refl. lia.
      * destruct (Z.eqb_spec lim l); [congruence|lia].
    + destruct (limit <=? zget wid (w_store w)); cbn [fst]; intros l; specialize (I l); unfold inflight, dupd in *;
        cbn [w_lims w_procs].
      * rewrite (cnt_remove l req _ _ EF). cbn [lim_of fst].
        destruct (Z.eqb_spec l lim); subst; cbn [d_recv d_fwd d_drop].
        -- rewrite Z.eqb_refl. lia.
        -- destruct (Z.eqb_spec lim l); [congruence|lia].
      * rewrite (cnt_set l req _ _ _ EF) by reflexivity.
        destruct (Z.eqb_spec l lim); subst; cbn [d_recv d_fwd d_drop]; lia.
Qed.

Theorem dist_conservation limit es : forall w, dinv w -> dinv (fst (dist_run limit w es)).
Proof.
  induction es as [|e r IH]; intros w I; cbn [dist_run]; [exact I|].
  pose proof (dist_step_inv limit w e I) as I1. destruct (dist_step limit w e) as [w1 o]. cbn [fst] in I1.
  specialize (IH w1 I1). destruct (dist_run limit w1 r) as [w2 os]. exact IH.
Qed.

Lemma dinv_init : dinv dworld_init.
Proof. intros l. reflexivity. Qed.

(** Two requests race on one limiter with limit 1: both read 0, both are forwarded (the shared
    counter is not updated atomically — by design of the component); conservation holds. *)
Example dist_example :
  let '(w, outs) := dist_run 1 dworld_init [DStart 0 0 0; DStart 0 1 0; DResume 0 5; DResume 1 5; DResume 0 9; DResume 1 9; DStart 0 2 0] in
  outs = [DWait; DWait; DWait; DWait; DFwd 0 9; DFwd 1 9; DDrop 2] /\
  d_recv (w_lims w 0) = 3 /\ d_fwd (w_lims w 0) = 2 /\ d_drop (w_lims w 0) = 1 /\ inflight w 0 = 0.
Proof. vm_compute. repeat split; congruence. Qed.
