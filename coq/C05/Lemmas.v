(** C05 — instantiation of the parallel theorems for scripted partitions. *)
From HS Require Import Base.Prelude Engine.Engine Engine.Script Engine.Parallel Engine.ParallelScript Engine.ParallelProofs.
Local Open Scope Z_scope.

Lemma script_init_winv start p pre : WInv pay ustate (script_init start p pre).
Proof.
  unfold script_init.
  match goal with |- context [init_state ?a ?b ?c ?d] => pose proof (init_winv pay ustate invoke_script (fun _ => 0) (fun _ _ => None) a b c d) as W end.
  destruct W as [W1 W2 W3]. constructor; cbn in *; auto.
Qed.

Lemma par_init_pinv start w p pres : start <= w ->
  Forall (PInv pay ustate start w) (par_init start p pres).
Proof.
  intros Hw. unfold par_init. rewrite Forall_forall. intros x Hx. apply in_map_iff in Hx as [pre [<- _]].
  constructor; cbn [ps_st ps_out ps_recv].
  - apply script_init_winv.
  - unfold script_init, init_state, push_all; cbn. exact Hw.
  - intros e _. change (clock (script_init start p pre)) with start. lia.
  - intros e s [].
  - intros e a [].
Qed.

Theorem par_run_safe fuel start p pmap links pres w wends ps' :
  windows_ok (link_of links) start (w :: wends) ->
  par_loop invoke_script (part_of_script pmap) (link_of links) fuel (w :: wends) (par_init start p pres) = PFinished ps' ->
  Forall (Safe pay ustate) ps'.
Proof.
  intros Hok H. eapply (par_loop_safe pay ustate invoke_script (part_of_script pmap) (link_of links) fuel (w :: wends) start);
    [exact Hok| |exact H].
  apply par_init_pinv. destruct Hok as [Hw _]. exact Hw.
Qed.
