(** Property C05 — partitioned parallel execution.  Proved for ALL scripts,
    partitionings, link sets, window sequences whose gaps do not exceed any
    link's minimum latency, and fuel:
    no cross-partition event is ever scheduled into the past of its destination
    (hence none is discarded as "time travel"); partitions stay inside their
    window; a successful barrier schedules each outbox entry exactly once;
    partitions without links are separate simulations.
    The trace-equivalence clause ("same deliveries per entity as the sequential
    run, up to same-timestamp order") is NOT proved: it is checked on the
    implementation by the oracle of harness/props/c05.py. *)
From HS Require Import Base.Prelude Engine.Engine Engine.Script Engine.Parallel Engine.ParallelScript
  Engine.ParallelProofs C05.Lemmas.
Local Open Scope Z_scope.

(** After any completed coordinated run, in every partition: (1) every event
    received from another partition was scheduled at or after the destination's
    clock (recorded as such), and (2) every event ever discarded as being in the
    past has a record of having been scheduled earlier than the clock of its
    scheduling.  A received event is therefore never discarded as past. *)
Theorem c05_no_cross_event_in_the_past : forall fuel start p pmap links pres w wends ps',
  windows_ok (link_of links) start (w :: wends) ->
  par_loop invoke_script (part_of_script pmap) (link_of links) fuel (w :: wends) (par_init start p pres) = PFinished ps' ->
  forall q, In q ps' ->
    (forall x at_, In (x, at_) (ps_recv q) -> at_ <= ev_time x /\ In (x, at_) (pushed (ps_st q))) /\
    (forall e c, In (e, c, SkippedPast) (log (ps_st q)) -> exists at_, In (e, at_) (pushed (ps_st q)) /\ ev_time e < at_).
Proof.
  intros fuel start p pmap links pres w wends ps' Hok H q Hq.
  pose proof (par_run_safe fuel start p pmap links pres w wends ps' Hok H) as Hs.
  rewrite Forall_forall in Hs. destruct (Hs q Hq) as [W Hr]. split; [exact Hr|apply (w_past _ _ _ W)].
Qed.
Print Assumptions c05_no_cross_event_in_the_past.

(** A partition that enters a window inside it leaves it inside it, with every
    waiting event at or after the window end (nothing beyond the boundary was
    delivered). *)
Theorem c05_partition_stays_in_window : forall fuel me wprev wend pmap links (q q' : @pstate pay ustate),
  wprev <= wend -> PInv pay ustate wprev wend q ->
  run_window invoke_script (part_of_script pmap) (link_of links) fuel me wend q = WStopped q' ->
  clock (ps_st q') <= wend /\ (forall x, In x (heap (ps_st q')) -> wend <= ev_time x).
Proof.
  intros fuel me wprev wend pmap links q q' Hw I H.
  destruct (run_window_ready pay ustate invoke_script (part_of_script pmap) (link_of links) fuel me wprev wend q q' Hw I H)
    as [(W & Hc & Hh & _) _]. split; assumption.
Qed.
Print Assumptions c05_partition_stays_in_window.

(** The barrier schedules each validated outbox entry into exactly one
    partition: the total number of scheduled events grows by one per entry. *)
Theorem c05_exchange_schedules_each_entry_once : forall pmap links src (ps ps' : list (@pstate pay ustate)) x,
  (Z.to_nat (part_of_script pmap (fst x)) < length ps)%nat ->
  deliver_one (part_of_script pmap) (link_of links) src (Some ps) x = Some ps' ->
  total_pushed pay ustate ps' = total_pushed pay ustate ps + 1 /\ length ps' = length ps.
Proof. intros pmap links. exact (deliver_one_count pay ustate invoke_script (part_of_script pmap) (link_of links)). Qed.
Print Assumptions c05_exchange_schedules_each_entry_once.

(** Independent partitions (no links) are exactly separate simulations. *)
Theorem c05_unlinked_partitions_are_separate_runs : forall fuel start end_ns p pmap pres wends ps',
  par_run fuel start end_ns p pmap [] pres wends = PFinished ps' ->
  map (fun q => ps_st q) ps' = map (fun pre => out_state (script_run fuel start (Some end_ns) p pre)) pres.
Proof.
  intros fuel start end_ns p pmap pres wends ps'. unfold par_run, par_init. rewrite !map_map.
  destruct (forallb _ _); [|destruct (existsb _ _); discriminate].
  intros H; inversion H; subst. rewrite !map_map. reflexivity.
Qed.
Print Assumptions c05_unlinked_partitions_are_separate_runs.

(** Non-vacuity: two partitions, latency 100 ms, window 100 ms; partition 1 is
    idle with a local event at 350 ms while partition 0 sends it a message for
    150 ms (the case the unrepaired loop dropped as time travel). *)
Example c05_example :
  let p := [[(0, BImm [AEmit (mkEmit (mkEmit0 100000000 1 1 false) (-1) [])])]; [(0, BImm []); (1, BImm [])]] in
  let pres := [[mkPre 50000000 (mkEmit (mkEmit0 0 0 0 false) (-1) []) false];
               [mkPre 350000000 (mkEmit (mkEmit0 0 1 0 false) (-1) []) false]] in
  match par_run 100 0 1000000000 p [0; 1] [(0, 1, 100000000)] pres
                [100000000; 200000000; 300000000; 400000000] with
  | PFinished ps => map (fun q => deliveries_of (ps_st q)) ps
                    = [[(50000000, 0, 0, 0)]; [(150000000, 1, 1, 0); (350000000, 0, 1, 0)]]
  | _ => False
  end.
Proof. vm_compute. reflexivity. Qed.
