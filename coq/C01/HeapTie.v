(** C01 — the event heap, tied to the code: [EventHeap._push_single / pop /
    peek / has_events / has_primary_events / size / set_current_time] as
    REGENERATED from core/event_heap.py ([Gen/EventGen.v], py2coq; tracing and
    debug logging off) are the heap bookkeeping of the engine model
    ([Engine.insert], the [primary] counter of [push_all] / [pop_and_handle], the
    clock reference), and — as a theorem about the translated class itself —
    keep the primary counter exact and deliver in (time, sort index) order.
    CPython's heapq is rendered as a sorted list (see Base/PyLib.v). *)
From Coq Require Import Permutation.
From HS Require Import Base.Prelude Base.PyLib Engine.Engine Gen.EventGen C01.GenTie.
Local Open Scope Z_scope.

Section Tie.
Variable P : Type.

Definition encv (e : ev P) : Event := mkEvent (ev_time e) (ev_sort e) (ev_daemon e).
Definition hobj (prim cur : Z) (h : list (ev P)) (mx : Z) : EventHeap := mkEventHeap prim cur (map encv h) mx.

Lemma tie_lt_enc (a b : ev P) : Event___lt__ (encv a) (encv b) = ev_ltb a b.
Proof.
  rewrite (tie_event_lt (encv a) (encv b) (ev_daemon a) (ev_daemon b) (ev_pay a) (ev_pay b)).
  destruct a, b; reflexivity.
Qed.

Lemma tie_heappush e h : py_heappush Event___lt__ (map encv h) (encv e) = map encv (insert e h).
Proof.
  induction h as [|x r IH]; cbn [map py_heappush insert]; [reflexivity|].
  rewrite tie_lt_enc. destruct (ev_ltb e x); cbn [map]; [reflexivity|]. now rewrite IH.
Qed.

(** [_push_single]: the model's [insert], the primary counter of [push_all]. *)
Lemma tie_push_single prim cur h mx e :
  EventHeap__push_single (hobj prim cur h mx) (encv e)
  = (hobj (prim + (if ev_daemon e then 0 else 1)) cur (insert e h) (Z.max mx (ev_sort e)), tt).
Proof.
  unfold EventHeap__push_single, hobj. cbn. rewrite tie_heappush.
  destruct (ev_sort e >? mx) eqn:E, (ev_daemon e);
    unfold set_EventHeap__max_sort_index, set_EventHeap__heap, set_EventHeap__primary_event_count; cbn; do 2 f_equal; lia.
Qed.

(** [pop]: the head of the model's sorted heap, the counter and clock updates of [pop_and_handle]. *)
Lemma tie_pop prim cur h mx :
  EventHeap_pop (hobj prim cur h mx)
  = match h with
    | [] => None
    | e :: r => Some (hobj (if ev_daemon e then prim else prim - 1) (ev_time e) r mx, encv e)
    end.
Proof. unfold EventHeap_pop, hobj. destruct h as [|e r]; cbn; [reflexivity|]. destruct (ev_daemon e); reflexivity. Qed.

Lemma tie_heap_reads prim cur h mx t :
  EventHeap_peek (hobj prim cur h mx) = option_map encv (hd_error h)
  /\ EventHeap_has_events (hobj prim cur h mx) = match h with [] => false | _ => true end
  /\ EventHeap_has_primary_events (hobj prim cur h mx) = (0 <? prim)
  /\ EventHeap_size (hobj prim cur h mx) = Z.of_nat (length h)
  /\ EventHeap_set_current_time (hobj prim cur h mx) t = (hobj prim t h mx, tt).
Proof.
  unfold EventHeap_peek, EventHeap_has_events, EventHeap_has_primary_events, EventHeap_size, EventHeap_set_current_time, hobj. cbn.
  rewrite map_length. repeat split; try (destruct h; reflexivity). lia.
Qed.

(** pushing a list of events one by one is the model's [insert_all] and [count_primary] *)
Lemma tie_push_all es : forall prim cur h mx,
  exists mx', fold_left (fun q e => fst (EventHeap__push_single q (encv e))) es (hobj prim cur h mx)
              = hobj (prim + count_primary es) cur (insert_all es h) mx'.
Proof.
  induction es as [|e es IH]; intros prim cur h mx; cbn [fold_left insert_all count_primary fold_right].
  - exists mx. now rewrite Z.add_0_r.
  - rewrite tie_push_single. cbn [fst]. destruct (IH (prim + (if ev_daemon e then 0 else 1)) cur (insert e h) (Z.max mx (ev_sort e))) as [mx' E].
    exists mx'. unfold insert_all in *. rewrite E. f_equal.
    change (fold_right (fun e0 n => if ev_daemon e0 then n else n + 1) 0 es) with (count_primary es).
    destruct (ev_daemon e); lia.
Qed.
End Tie.

(* ------------------------------------------------------------------ *)
(** * The translated class itself: any sequence of pushes and pops *)

Inductive hop := HPush (e : Event) | HPop.

(** run; [None] = a pop on the empty heap (IndexError) *)
Fixpoint heap_run (q : EventHeap) (ops : list hop) : option (EventHeap * list Event) :=
  match ops with
  | [] => Some (q, [])
  | HPush e :: r => heap_run (fst (EventHeap__push_single q e)) r
  | HPop :: r => match EventHeap_pop q with
                 | None => None
                 | Some (q', e) => match heap_run q' r with Some (q'', l) => Some (q'', e :: l) | None => None end
                 end
  end.

Fixpoint pushed_of (ops : list hop) : list Event :=
  match ops with [] => [] | HPush e :: r => e :: pushed_of r | HPop :: r => pushed_of r end.

Definition klt (a b : Event) : Prop :=
  Event_time a < Event_time b \/ (Event_time a = Event_time b /\ Event__sort_index a < Event__sort_index b).

Definition nprimary (l : list Event) : Z := fold_right (fun e n => if Event_daemon e then n else n + 1) 0 l.

(** no element of the tail is strictly before the head, recursively *)
Fixpoint hsorted (l : list Event) : Prop :=
  match l with [] => True | x :: r => Forall (fun y => ~ klt y x) r /\ hsorted r end.

Lemma lt_false_spec a b : Event___lt__ a b = false <-> ~ klt a b.
Proof.
  pose proof (event_lt_spec a b) as H. fold (klt a b) in H. destruct (Event___lt__ a b).
  - split; [discriminate|intros N; exfalso; apply N, H; reflexivity].
  - split; [intros _ K; apply H in K; discriminate|reflexivity].
Qed.

Lemma in_heappush x h y : In y (py_heappush Event___lt__ h x) <-> y = x \/ In y h.
Proof.
  induction h as [|e r IH]; cbn; [intuition|].
  destruct (Event___lt__ x e); cbn; [intuition|]. rewrite IH. intuition.
Qed.

Lemma heappush_sorted x h : hsorted h -> hsorted (py_heappush Event___lt__ h x).
Proof.
  induction h as [|e r IH]; intros Hs; cbn [py_heappush]; [cbn; auto|].
  destruct Hs as [Hf Hs]. destruct (Event___lt__ x e) eqn:E.
  - cbn [hsorted]. split; [|split; assumption]. apply event_lt_spec in E.
    constructor; [unfold klt in *; lia|]. rewrite Forall_forall in *. intros y Hy. specialize (Hf y Hy). unfold klt in *. lia.
  - cbn [hsorted]. split; [|apply IH; exact Hs]. apply lt_false_spec in E.
    rewrite Forall_forall in *. intros y Hy. apply in_heappush in Hy. destruct Hy as [->|Hy]; [exact E|apply Hf, Hy].
Qed.

Lemma heappush_perm x h : Permutation (py_heappush Event___lt__ h x) (x :: h).
Proof.
  induction h as [|e r IH]; cbn [py_heappush]; [apply Permutation_refl|].
  destruct (Event___lt__ x e); [apply Permutation_refl|].
  eapply Permutation_trans; [apply perm_skip, IH|apply perm_swap].
Qed.

Lemma nprimary_heappush x h : nprimary (py_heappush Event___lt__ h x) = nprimary h + (if Event_daemon x then 0 else 1).
Proof.
  induction h as [|e r IH]; cbn [py_heappush nprimary fold_right]; [destruct (Event_daemon x); lia|].
  destruct (Event___lt__ x e); cbn [nprimary fold_right]; [destruct (Event_daemon x); lia|].
  fold (nprimary (py_heappush Event___lt__ r x)). rewrite IH. fold (nprimary r). destruct (Event_daemon e), (Event_daemon x); lia.
Qed.

Definition heap_inv (q : EventHeap) : Prop :=
  EventHeap__primary_event_count q = nprimary (EventHeap__heap q) /\ hsorted (EventHeap__heap q).

Lemma push_single_inv q e : heap_inv q -> heap_inv (fst (EventHeap__push_single q e)).
Proof.
  intros [Hc Hs]. unfold EventHeap__push_single.
  assert (G : forall q', EventHeap__heap q' = py_heappush Event___lt__ (EventHeap__heap q) e ->
              EventHeap__primary_event_count q' = EventHeap__primary_event_count q + (if Event_daemon e then 0 else 1) -> heap_inv q').
  { intros q' H1 H2. split; [rewrite H2, H1, nprimary_heappush, Hc; reflexivity|rewrite H1; now apply heappush_sorted]. }
  destruct (Event__sort_index e >? _), (Event_daemon e) eqn:Ed; cbn [fst]; apply G;
    unfold set_EventHeap__max_sort_index, set_EventHeap__heap, set_EventHeap__primary_event_count; cbn; try reflexivity; symmetry; apply Z.add_0_r.
Qed.

Lemma pop_inv q q' e : heap_inv q -> EventHeap_pop q = Some (q', e) ->
  heap_inv q' /\ EventHeap__heap q = e :: EventHeap__heap q' /\ EventHeap__current_time q' = Event_time e
  /\ Forall (fun y => ~ klt y e) (EventHeap__heap q').
Proof.
  intros [Hc Hs] Hp. unfold EventHeap_pop in Hp. destruct (EventHeap__heap q) as [|x r] eqn:Eh; [discriminate|].
  cbn [hsorted] in Hs. destruct Hs as [Hf Hs]. cbn [nprimary fold_right] in Hc. fold (nprimary r) in Hc.
  destruct (Event_daemon x) eqn:Ed; inversion Hp; subst;
    unfold set_EventHeap__current_time, set_EventHeap__heap, set_EventHeap__primary_event_count; cbn;
    (split; [split; [unfold nprimary in *; cbn; lia|exact Hs]|]); repeat split; assumption.
Qed.

(** EventHeap AS TRANSLATED, from the empty heap, for EVERY sequence of
    pushes and pops that does not pop an empty heap:
    - the primary counter equals the number of non-daemon events in the heap
      (so [has_primary_events] is exact — what auto-termination reads);
    - the events pushed are exactly the events popped plus the events held
      (nothing lost, nothing duplicated);
    - every pop returned an event that nothing then in the heap preceded in
      (time, sort index) order, and the heap's time reference is its timestamp. *)
Fixpoint pops_minimal (q : EventHeap) (ops : list hop) : Prop :=
  match ops with
  | [] => True
  | HPush e :: r => pops_minimal (fst (EventHeap__push_single q e)) r
  | HPop :: r => match EventHeap_pop q with
                 | None => True
                 | Some (q', e) => Forall (fun y => ~ klt y e) (EventHeap__heap q')
                                   /\ EventHeap__current_time q' = Event_time e /\ pops_minimal q' r
                 end
  end.

Lemma heap_run_inv ops : forall q q' popped held0,
  heap_inv q -> heap_run q ops = Some (q', popped) -> Permutation held0 (EventHeap__heap q) ->
  heap_inv q' /\ Permutation (held0 ++ pushed_of ops) (popped ++ EventHeap__heap q') /\ pops_minimal q ops.
Proof.
  induction ops as [|[e|] ops IH]; intros q q' popped held0 Hi Hr Hp; cbn [heap_run pushed_of pops_minimal] in *.
  - inversion Hr; subst. rewrite app_nil_r. cbn. auto.
  - pose proof (push_single_inv q e Hi) as Hi'.
    assert (Hh : EventHeap__heap (fst (EventHeap__push_single q e)) = py_heappush Event___lt__ (EventHeap__heap q) e).
    { unfold EventHeap__push_single. destruct (Event__sort_index e >? _), (Event_daemon e); reflexivity. }
    destruct (IH _ _ _ (held0 ++ [e]) Hi' Hr) as (A & B & C).
    { rewrite Hh. eapply Permutation_trans; [|apply Permutation_sym, heappush_perm].
      eapply Permutation_trans; [apply Permutation_app_comm|]. cbn. apply perm_skip, Hp. }
    split; [exact A|]. split; [|exact C]. rewrite <- app_assoc in B. exact B.
  - destruct (EventHeap_pop q) as [[q1 e]|] eqn:Ep; [|discriminate].
    destruct (heap_run q1 ops) as [[q2 l]|] eqn:Er; [|discriminate]. inversion Hr; subst.
    destruct (pop_inv _ _ _ Hi Ep) as (Hi1 & Hh & Ht & Hm).
    assert (exists held1, Permutation held0 (e :: held1) /\ Permutation held1 (EventHeap__heap q1)) as (held1 & P1 & P2).
    { exists (EventHeap__heap q1). rewrite Hh in Hp. split; [exact Hp|apply Permutation_refl]. }
    destruct (IH _ _ _ held1 Hi1 Er P2) as (A & B & C).
    split; [exact A|]. split; [|repeat split; assumption].
    cbn [app]. eapply Permutation_trans; [apply Permutation_app_tail, P1|]. cbn [app]. apply perm_skip, B.
Qed.

Theorem code_event_heap : forall ops t0 mx0 q popped,
  heap_run (mkEventHeap 0 t0 [] mx0) ops = Some (q, popped) ->
  EventHeap__primary_event_count q = nprimary (EventHeap__heap q)
  /\ (EventHeap_has_primary_events q = true <-> exists e, In e (EventHeap__heap q) /\ Event_daemon e = false)
  /\ Permutation (pushed_of ops) (popped ++ EventHeap__heap q)
  /\ pops_minimal (mkEventHeap 0 t0 [] mx0) ops.
Proof.
  intros ops t0 mx0 q popped Hr.
  assert (Hi : heap_inv (mkEventHeap 0 t0 [] mx0)) by (split; cbn; auto).
  destruct (heap_run_inv ops _ _ _ [] Hi Hr (Permutation_refl _)) as ([Hc Hs] & B & C).
  split; [exact Hc|]. split; [|split; [exact B|exact C]].
  unfold EventHeap_has_primary_events. rewrite Hc. clear. induction (EventHeap__heap q) as [|x r IH]; cbn [nprimary fold_right].
  - split; [cbn; discriminate|intros (e & [] & _)].
  - fold (nprimary r) in *. assert (0 <= nprimary r) by (clear; induction r as [|y r IH]; cbn; [lia|fold (nprimary r); destruct (Event_daemon y); lia]).
    destruct (Event_daemon x) eqn:Ed.
    + rewrite IH. split; intros (e & Hin & Hd); [exists e; split; [right; exact Hin|exact Hd]|].
      destruct Hin as [->|Hin]; [congruence|exists e; auto].
    + split; [intros _; exists x; split; [left; reflexivity|exact Ed]|intros _; lia].
Qed.
