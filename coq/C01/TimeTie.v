(** C01 — simulation time, tied to the code: [Instant] / [Duration] arithmetic
    and comparisons of core/temporal.py and [Clock] of core/clock.py, as
    REGENERATED on every run ([Gen/TemporalGen.v], py2coq; finite instants, the
    float-seconds branches are not translated), are integer arithmetic and
    integer comparisons on nanosecond counts — the reading of time the engine
    model, every component model and the idiom table of the other translations
    (Instant/Duration = Z nanoseconds) rest on. *)
From HS Require Import Base.Prelude Base.PyLib Gen.TemporalGen.
Local Open Scope Z_scope.

Definition ins (t : Instant) : Z := Instant_nanoseconds t.
Definition dns (d : Duration) : Z := Duration_nanoseconds d.

Lemma instant_arith (t u : Instant) (d : Duration) (k : Z) :
  ins (Instant___add___dur t d) = ins t + dns d
  /\ ins (Instant___add___int t k) = ins t + k * 1000000000
  /\ dns (Instant___sub___inst t u) = ins t - ins u
  /\ ins (Instant___sub___dur t d) = ins t - dns d
  /\ ins (Instant___sub___int t k) = ins t - k * 1000000000.
Proof. repeat split. Qed.

Lemma duration_arith (d e : Duration) (k : Z) :
  dns (Duration___add___dur d e) = dns d + dns e
  /\ dns (Duration___add___int d k) = dns d + k * 1000000000
  /\ dns (Duration___sub___dur d e) = dns d - dns e
  /\ dns (Duration___sub___int d k) = dns d - k * 1000000000.
Proof. repeat split. Qed.

Lemma instant_compare (t u : Instant) :
  Instant___eq__ t u = (ins t =? ins u) /\ Instant___lt__ t u = (ins t <? ins u) /\ Instant___le__ t u = (ins t <=? ins u)
  /\ Instant___gt__ t u = (ins u <? ins t) /\ Instant___ge__ t u = (ins u <=? ins t).
Proof. unfold Instant___eq__, Instant___lt__, Instant___le__, Instant___gt__, Instant___ge__, ins. repeat split; lia. Qed.

Lemma duration_compare (d e : Duration) :
  Duration___eq__ d e = (dns d =? dns e) /\ Duration___lt__ d e = (dns d <? dns e) /\ Duration___le__ d e = (dns d <=? dns e)
  /\ Duration___gt__ d e = (dns e <? dns d) /\ Duration___ge__ d e = (dns e <=? dns d).
Proof. unfold Duration___eq__, Duration___lt__, Duration___le__, Duration___gt__, Duration___ge__, dns. repeat split; lia. Qed.

(** consequences the models use silently: shifting forth and back is the identity, the
    order is a strict total order compatible with shifting, equal counts are equal values *)
Lemma instant_laws (t u : Instant) (d : Duration) :
  Instant___sub___dur (Instant___add___dur t d) d = t
  /\ Instant___add___dur u (Instant___sub___inst t u) = t
  /\ (Instant___eq__ t u = true <-> t = u)
  /\ (Instant___lt__ t u = true -> Instant___lt__ u t = false)
  /\ (Instant___lt__ t u = true \/ Instant___lt__ u t = true \/ t = u)
  /\ (Instant___lt__ (Instant___add___dur t d) (Instant___add___dur u d) = Instant___lt__ t u)
  /\ (0 <= dns d -> Instant___le__ t (Instant___add___dur t d) = true).
Proof.
  destruct t as [a], u as [b], d as [c].
  unfold Instant___sub___dur, Instant___add___dur, Instant___sub___inst, Instant___eq__, Instant___lt__, Instant___le__, dns. cbn.
  repeat split; try (f_equal; lia); try lia.
  - intros H. f_equal. lia.
  - intros H. inversion H. lia.
  - destruct (Z.lt_trichotomy a b) as [H|[H|H]]; [left; lia|right; right; f_equal; exact H|right; left; lia].
Qed.

(** the clock: [update] stores the instant it is given, [now] reads it back *)
Lemma clock_spec (c : Clock) (t : Instant) : Clock_now (fst (Clock_update c t)) = t.
Proof. reflexivity. Qed.
