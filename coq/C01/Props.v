(** Property C01 — every live event is delivered exactly once, in time order
    with FIFO ties.  Statements over ALL scripts (programs), pre-run schedules,
    end_time choices and fuel; closed by [exact]; nothing else in this file. *)
From HS Require Import Base.Prelude Base.PyLib Engine.Engine Engine.Script Engine.EngineProofs Engine.ScriptProofs Gen.EventGen C01.GenTie C01.HeapTie Gen.TemporalGen C01.TimeTie.
From Coq Require Import Sorting.Sorted Permutation.
Local Open Scope Z_scope.

Definition final fuel start end_ns p pre : sst := out_state (script_run fuel start end_ns p pre).

(** Of any two deliveries, the earlier one has the smaller timestamp, or the
    same timestamp and the smaller sort index (= earlier creation, next theorem):
    non-decreasing time order and FIFO among simultaneous events, whether they
    were scheduled before the run or during it. *)
Theorem c01_time_order_fifo_ties : forall fuel start end_ns p pre l1 a l2 b l3,
  delivered (final fuel start end_ns p pre) = l1 ++ a :: l2 ++ b :: l3 ->
  ev_time a < ev_time b \/ (ev_time a = ev_time b /\ ev_sort a < ev_sort b).
Proof. intros. eapply delivered_order; [apply script_run_inv|eassumption]. Qed.
Print Assumptions c01_time_order_fifo_ties.

(** Sort indices follow creation order: whatever an invocation creates is
    numbered above every event pushed before it (pre-run events included). *)
Theorem c01_sort_index_is_creation_order : forall (s : sst) now e r x y at_,
  Inv pay ustate s -> invoke_script (user s) now e (ctr s) = Some r ->
  In x (r_new r) -> In (y, at_) (pushed s) -> ev_sort y < ev_sort x.
Proof.
  intros s now e r x y a I Hr Hx Hy.
  destruct (invoke_script_ok _ _ _ _ _ Hr) as (_ & Hnew & _). specialize (Hnew x Hx).
  assert (ev_sort y < ctr s); [|lia]. apply (i_fresh _ _ _ I). apply in_map_iff. exists (y, a). auto.
Qed.
Print Assumptions c01_sort_index_is_creation_order.

Theorem c01_delivered_at_most_once : forall fuel start end_ns p pre,
  NoDup (delivered (final fuel start end_ns p pre)).
Proof. intros. apply delivered_once, script_run_inv. Qed.
Print Assumptions c01_delivered_at_most_once.

Theorem c01_clock_equals_timestamp : forall fuel start end_ns p pre e c,
  In (e, c, Delivered) (log (final fuel start end_ns p pre)) -> c = ev_time e.
Proof. intros. eapply delivered_clock; [apply script_run_inv|eassumption]. Qed.
Print Assumptions c01_clock_equals_timestamp.

(** When a run with an end_time ends, every event scheduled not earlier than
    the clock of its scheduling and not later than end_time was delivered, or
    was found cancelled when popped: none lost, none discarded as past. *)
Theorem c01_live_events_delivered : forall fuel start end_ns p pre s',
  script_run fuel start (Some end_ns) p pre = Stopped s' ->
  forall x at_, In (x, at_) (pushed s') -> at_ <= ev_time x -> ev_time x <= end_ns ->
  exists c, In (x, c, Delivered) (log s') \/
            (In (x, c, SkippedCancelled) (log s') /\ is_cancelled s' x = true).
Proof.
  intros fuel start end_ns p pre s' H. eapply live_events_handled; [exact invoke_script_ok|apply script_init_inv|exact H].
Qed.
Print Assumptions c01_live_events_delivered.

Theorem c01_only_events_scheduled_in_the_past_are_discarded : forall fuel start end_ns p pre e c,
  In (e, c, SkippedPast) (log (final fuel start end_ns p pre)) ->
  exists at_, In (e, at_) (pushed (final fuel start end_ns p pre)) /\ ev_time e < at_.
Proof. intros. eapply past_only_if_scheduled_in_past; [apply script_run_inv|eassumption]. Qed.
Print Assumptions c01_only_events_scheduled_in_the_past_are_discarded.

(** A cancelled event is never delivered (from any reachable state on). *)
Theorem c01_cancelled_never_delivered : forall fuel end_ns id (s : sst),
  undelivered pay ustate id s -> undelivered pay ustate id (out_state (run invoke_script fuel end_ns s)).
Proof. intros. apply cancelled_never_delivered. assumption. Qed.
Print Assumptions c01_cancelled_never_delivered.

(** With no end_time the run stops exactly when no non-daemon event is pending. *)
Theorem c01_auto_termination : forall (s : sst), Inv pay ustate s ->
  (count_primary (heap s) = 0 -> step_slow invoke_script None s = Stopped s) /\
  (0 < count_primary (heap s) -> forall s', step_slow invoke_script None s <> Stopped s').
Proof.
  intros s I. split; [apply auto_stops_without_primary|apply auto_continues_with_primary]; exact I.
Qed.
Print Assumptions c01_auto_termination.

Theorem c01_auto_final_state : forall fuel start p pre s',
  script_run fuel start None p pre = Stopped s' -> heap s' = [] \/ count_primary (heap s') = 0.
Proof.
  intros fuel start p pre s' H. eapply auto_final_state; [exact invoke_script_ok|apply script_init_inv|exact H].
Qed.
Print Assumptions c01_auto_final_state.

Theorem c01_primary_count_exact : forall fuel start end_ns p pre,
  primary (final fuel start end_ns p pre) = count_primary (heap (final fuel start end_ns p pre)).
Proof. intros. apply primary_count_exact, script_run_inv. Qed.
Print Assumptions c01_primary_count_exact.

(** Non-vacuity: a script with a pre-run tie, a generator, a cancellation. *)
Example c01_example :
  let p := [[(0, BImm [AEmit (mkEmit (mkEmit0 500000000 0 1 false) (-1) [])]); (1, BGen [GYield 1000 []] [])]] in
  let pre := [mkPre 500000000 (mkEmit (mkEmit0 0 0 0 false) (-1) []) false;
              mkPre 1000000000 (mkEmit (mkEmit0 0 0 1 false) 0 []) false;
              mkPre 1000000000 (mkEmit (mkEmit0 0 0 1 false) (-1) []) true] in
  map (fun e => (ev_time e, ev_sort e)) (delivered (final 50 0 (Some 2000000000) p pre))
  = [(500000000, 0); (1000000000, 1); (1000000000, 3); (1000001000, 5); (1000001000, 7)].
Proof. vm_compute. reflexivity. Qed.

(* ------------------------------------------------------------------ *)
(** The heap order key of the CODE: [Event.__lt__], regenerated from core/event.py on every run
    (Gen/EventGen.v), is the model's [ev_ltb] and a strict total order on (time, creation index). *)
Theorem c01_code_event_order : forall (a b c : Event),
  (forall P da db (pa pb : P), Event___lt__ a b = ev_ltb (ev_of a da pa) (ev_of b db pb))
  /\ Event___lt__ a a = false
  /\ (Event___lt__ a b = true -> Event___lt__ b c = true -> Event___lt__ a c = true)
  /\ (Event___lt__ a b = true \/ Event___lt__ b a = true
      \/ (Event_time a = Event_time b /\ Event__sort_index a = Event__sort_index b))
  /\ (Event___lt__ a b = true <->
      (Event_time a < Event_time b \/ (Event_time a = Event_time b /\ Event__sort_index a < Event__sort_index b))%Z).
Proof. intros a b c. exact (conj (fun P da db pa pb => tie_event_lt a b da db pa pb) (event_lt_strict_total a b c)). Qed.
Print Assumptions c01_code_event_order.

(* ------------------------------------------------------------------ *)
(** The event heap of the CODE: EventHeap._push_single / pop / peek / has_events /
    has_primary_events / size / set_current_time, regenerated from core/event_heap.py on every run
    (Gen/EventGen.v; tracing and debug logging off), are the heap bookkeeping of the engine model —
    [insert] into the list sorted by [ev_ltb], the [primary] counter and clock updates of [push_all]
    and [pop_and_handle] — on the code object [hobj] of a model heap (any payload type). *)
Theorem c01_code_event_heap_refines_model : forall (P : Type) prim cur (h : list (ev P)) mx e es t,
  EventHeap__push_single (hobj P prim cur h mx) (encv P e)
    = (hobj P (prim + (if ev_daemon e then 0 else 1)) cur (insert e h) (Z.max mx (ev_sort e)), tt)
  /\ EventHeap_pop (hobj P prim cur h mx)
    = match h with
      | [] => None
      | e :: r => Some (hobj P (if ev_daemon e then prim else prim - 1) (ev_time e) r mx, encv P e)
      end
  /\ (EventHeap_peek (hobj P prim cur h mx) = option_map (encv P) (hd_error h)
      /\ EventHeap_has_events (hobj P prim cur h mx) = match h with [] => false | _ => true end
      /\ EventHeap_has_primary_events (hobj P prim cur h mx) = (0 <? prim)
      /\ EventHeap_size (hobj P prim cur h mx) = Z.of_nat (length h)
      /\ EventHeap_set_current_time (hobj P prim cur h mx) t = (hobj P prim t h mx, tt))
  /\ (exists mx', fold_left (fun q e => fst (EventHeap__push_single q (encv P e))) es (hobj P prim cur h mx)
                  = hobj P (prim + count_primary es) cur (insert_all es h) mx').
Proof.
  intros P prim cur h mx e es t.
  exact (conj (tie_push_single P prim cur h mx e) (conj (tie_pop P prim cur h mx)
        (conj (tie_heap_reads P prim cur h mx t) (tie_push_all P es prim cur h mx)))).
Qed.
Print Assumptions c01_code_event_heap_refines_model.

(** EventHeap AS TRANSLATED, started empty, for EVERY sequence of pushes and pops that never pops
    an empty heap: the primary counter equals the number of non-daemon events held, so
    [has_primary_events] — what auto-termination reads — is true exactly when a non-daemon event is
    pending; the events pushed are exactly the events popped plus the events held (nothing lost or
    duplicated by the heap); every pop returned an event that nothing then in the heap preceded in
    (time, sort index) order and set the heap's time reference to its timestamp. *)
Theorem c01_code_event_heap : forall ops t0 mx0 q popped,
  heap_run (mkEventHeap 0 t0 [] mx0) ops = Some (q, popped) ->
  EventHeap__primary_event_count q = nprimary (EventHeap__heap q)
  /\ (EventHeap_has_primary_events q = true <-> exists e, In e (EventHeap__heap q) /\ Event_daemon e = false)
  /\ Permutation (pushed_of ops) (popped ++ EventHeap__heap q)
  /\ pops_minimal (mkEventHeap 0 t0 [] mx0) ops.
Proof. exact code_event_heap. Qed.
Print Assumptions c01_code_event_heap.

Example c01_code_event_heap_example :
  option_map snd (heap_run (mkEventHeap 0 0 [] (-1))
    [HPush (mkEvent 5 0 false); HPush (mkEvent 3 1 true); HPush (mkEvent 5 2 false); HPush (mkEvent 3 3 false); HPop; HPop; HPop])
  = Some [mkEvent 3 1 true; mkEvent 3 3 false; mkEvent 5 0 false].
Proof. vm_compute. reflexivity. Qed.

(* ------------------------------------------------------------------ *)
(** Simulation time of the CODE: Instant / Duration arithmetic and comparisons of core/temporal.py
    (finite instants; Duration, Instant and whole-second operands) and Clock of core/clock.py,
    regenerated on every run (Gen/TemporalGen.v), are integer arithmetic / comparisons on nanosecond
    counts; shifting forth and back is the identity, the order is strict, total and compatible with
    shifting; the clock returns the instant it was last given.  This is the reading of time used by
    the engine model ("clock = timestamp at every delivery", "time order") and by the idiom table of
    every other translation. *)
Theorem c01_code_time_is_integer_nanoseconds : forall (t u : Instant) (d e : Duration) (k : Z) (c : Clock),
  (ins (Instant___add___dur t d) = ins t + dns d
   /\ ins (Instant___add___int t k) = ins t + k * 1000000000
   /\ dns (Instant___sub___inst t u) = ins t - ins u
   /\ ins (Instant___sub___dur t d) = ins t - dns d
   /\ ins (Instant___sub___int t k) = ins t - k * 1000000000)
  /\ (dns (Duration___add___dur d e) = dns d + dns e
      /\ dns (Duration___add___int d k) = dns d + k * 1000000000
      /\ dns (Duration___sub___dur d e) = dns d - dns e
      /\ dns (Duration___sub___int d k) = dns d - k * 1000000000)
  /\ (Instant___eq__ t u = (ins t =? ins u) /\ Instant___lt__ t u = (ins t <? ins u) /\ Instant___le__ t u = (ins t <=? ins u)
      /\ Instant___gt__ t u = (ins u <? ins t) /\ Instant___ge__ t u = (ins u <=? ins t))
  /\ (Duration___eq__ d e = (dns d =? dns e) /\ Duration___lt__ d e = (dns d <? dns e) /\ Duration___le__ d e = (dns d <=? dns e)
      /\ Duration___gt__ d e = (dns e <? dns d) /\ Duration___ge__ d e = (dns e <=? dns d))
  /\ (Instant___sub___dur (Instant___add___dur t d) d = t
      /\ Instant___add___dur u (Instant___sub___inst t u) = t
      /\ (Instant___eq__ t u = true <-> t = u)
      /\ (Instant___lt__ t u = true -> Instant___lt__ u t = false)
      /\ (Instant___lt__ t u = true \/ Instant___lt__ u t = true \/ t = u)
      /\ (Instant___lt__ (Instant___add___dur t d) (Instant___add___dur u d) = Instant___lt__ t u)
      /\ (0 <= dns d -> Instant___le__ t (Instant___add___dur t d) = true))
  /\ Clock_now (fst (Clock_update c t)) = t.
Proof.
  intros t u d e k c.
  exact (conj (instant_arith t u d k) (conj (duration_arith d e k) (conj (instant_compare t u) (conj (duration_compare d e)
        (conj (instant_laws t u d) (clock_spec c t)))))).
Qed.
Print Assumptions c01_code_time_is_integer_nanoseconds.
