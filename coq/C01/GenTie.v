(** C01 — the heap order key, tied to the code: [Event.__lt__] as REGENERATED
    from core/event.py ([Gen/EventGen.v], py2coq) is the order [ev_ltb] by which
    the engine model keeps its heap sorted.  (CPython's heapq, which only ever
    calls [__lt__], is modelled as an abstract priority queue; see DESIGN.) *)
From HS Require Import Base.Prelude Base.PyLib Engine.Engine Gen.EventGen.
Local Open Scope Z_scope.

Definition ev_of {P} (e : Event) (d : bool) (p : P) : ev P :=
  @mkEv P (Event_time e) (Event__sort_index e) d p.

Lemma tie_event_lt {P} (a b : Event) da db (pa pb : P) :
  Event___lt__ a b = ev_ltb (ev_of a da pa) (ev_of b db pb).
Proof.
  unfold Event___lt__, ev_ltb, ev_of; cbn. destruct (Event_time a =? Event_time b); reflexivity.
Qed.

(** What the delivery-order theorems need of it: a strict total order on
    (time, sort index) — irreflexive, transitive, total on distinct keys. *)
Lemma event_lt_strict_total (a b c : Event) :
  Event___lt__ a a = false
  /\ (Event___lt__ a b = true -> Event___lt__ b c = true -> Event___lt__ a c = true)
  /\ (Event___lt__ a b = true \/ Event___lt__ b a = true
      \/ (Event_time a = Event_time b /\ Event__sort_index a = Event__sort_index b))
  /\ (Event___lt__ a b = true <->
      Event_time a < Event_time b \/ (Event_time a = Event_time b /\ Event__sort_index a < Event__sort_index b)).
Proof.
  unfold Event___lt__. repeat split.
  - rewrite Z.eqb_refl; cbn. lia.
  - destruct (Event_time a =? Event_time b) eqn:E1, (Event_time b =? Event_time c) eqn:E2,
             (Event_time a =? Event_time c) eqn:E3; cbn; lia.
  - destruct (Event_time a =? Event_time b) eqn:E1, (Event_time b =? Event_time a) eqn:E2; cbn; lia.
  - destruct (Event_time a =? Event_time b) eqn:E1; cbn; lia.
  - destruct (Event_time a =? Event_time b) eqn:E1; cbn; lia.
Qed.
