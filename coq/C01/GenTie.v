(** C01 — the heap order key, tied to the code: [Event.__lt__] as REGENERATED
    from core/event.py ([Gen/EventGen.v], py2coq) is the order [ev_ltb] by which
    the engine model keeps its heap sorted.  (CPython's heapq, which only ever
    calls [__lt__], is modelled as an abstract priority queue; see DESIGN.) *)
From HS Require Import Base.Prelude Base.PyLib Engine.Engine Gen.EventGen.
Local Open Scope Z_scope.

Definition ev_of {P} (e : Event) (d : bool) (p : P) : ev P :=
  @mkEv P (Event_time e) (Event__sort_index e) d p.

(** Semantic reading of the translated comparison (proved by case analysis on whatever
    comparisons the translation contains, so that an equivalent rewrite of [__lt__] -
    swapped operands, [>] for [<] - still checks). *)
Lemma event_lt_spec (a b : Event) :
  Event___lt__ a b = true <->
  Event_time a < Event_time b \/ (Event_time a = Event_time b /\ Event__sort_index a < Event__sort_index b).
Proof. unfold Event___lt__. cbn. tie_split; cbn; lia. Qed.

Lemma tie_event_lt {P} (a b : Event) da db (pa pb : P) :
  Event___lt__ a b = ev_ltb (ev_of a da pa) (ev_of b db pb).
Proof.
  apply Bool.eq_true_iff_eq. rewrite event_lt_spec.
  unfold ev_ltb, ev_of; cbn. destruct (Event_time a =? Event_time b) eqn:E; lia.
Qed.

(** What the delivery-order theorems need of it: a strict total order on
    (time, sort index) — irreflexive, transitive, total on distinct keys. *)
Lemma event_lt_strict_total (a b c : Event) :
  Event___lt__ a a = false
  /\ (Event___lt__ a b = true -> Event___lt__ b c = true -> Event___lt__ a c = true)
  /\ (Event___lt__ a b = true \/ Event___lt__ b a = true
      \/ (Event_time a = Event_time b /\ Event__sort_index a = Event__sort_index b))
  /\ (Event___lt__ a b = true <->
      Event_time a < Event_time b \/ (Event_time a = Event_time b /\ Event__sort_index a < Event__sort_index b)).
Proof.
  pose proof (event_lt_spec a a) as Haa. pose proof (event_lt_spec a b) as Hab. pose proof (event_lt_spec b c) as Hbc.
  pose proof (event_lt_spec a c) as Hac. pose proof (event_lt_spec b a) as Hba.
  repeat split.
  - destruct (Event___lt__ a a); [|reflexivity]. exfalso. destruct Haa as [Haa _]. specialize (Haa eq_refl). lia.
  - intros H1 H2. apply Hac. apply Hab in H1. apply Hbc in H2. lia.
  - destruct (Event___lt__ a b); [left; reflexivity|]. destruct (Event___lt__ b a); [right; left; reflexivity|].
    right; right. destruct Hab as [_ Hab], Hba as [_ Hba].
    assert (~ (Event_time a < Event_time b \/ Event_time a = Event_time b /\ Event__sort_index a < Event__sort_index b)) by (intros X; specialize (Hab X); discriminate).
    assert (~ (Event_time b < Event_time a \/ Event_time b = Event_time a /\ Event__sort_index b < Event__sort_index a)) by (intros X; specialize (Hba X); discriminate).
    lia.
  - apply Hab.
  - apply Hab.
Qed.
